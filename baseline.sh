#!/bin/bash
# Runs the repository's pinned test suite (guard off: no verif tag, no overlay) and prints a summary.
export GOFLAGS=-mod=mod GOPROXY=off GOSUMDB=off GOTOOLCHAIN=local
cd /repo && go test -mod=mod -json -vet=off -count=1 -timeout 25m ./... > /tmp/verif_baseline.json 2>/tmp/verif_baseline.err
rc=$?
python3 - <<'P'
import json
p=f=0; failed=[]
for l in open('/tmp/verif_baseline.json'):
    try: e=json.loads(l)
    except: continue
    if e.get('Test') and '/' not in e['Test']:
        if e['Action']=='pass': p+=1
        if e['Action']=='fail': f+=1; failed.append(e['Package']+'::'+e['Test'])
print(f"baseline: pass={p} fail={f}", failed)
P
rm -f /tmp/verif_baseline.json /tmp/verif_baseline.err
exit $rc
