#!/bin/bash
# usage: confirm_seed.sh <worktree> <seed-id> : independently confirms a seeded change
# (compiles, existing suite passes, demo passes without / fails with the change) and stores it under /verif/seeded/<seed-id>/
set -u
export GOFLAGS=-mod=mod GOPROXY=off GOSUMDB=off GOTOOLCHAIN=local
wt=$1; id=$2; out=$wt/seed_out
[ -f $out/patch.diff ] || { echo "no patch"; exit 2; }
pkg=$(cat $out/DEMO_PKG.txt | tr -d '[:space:]'); [ -z "$pkg" ] && pkg=.
tmp=$(mktemp -d /tmp/confirm.XXXX)
[ -f $out/zz_seed_demo_test.go ] || cp $out/zz_seed_demo_test.go.txt $out/zz_seed_demo_test.go
cp $out/patch.diff $out/zz_seed_demo_test.go $tmp/; cp $out/notes.md $tmp/ 2>/dev/null; cp $out/DEMO_PKG.txt $tmp/
cd $wt && git checkout -q -- . && git clean -fdq . && mkdir -p seed_out && cp $tmp/* seed_out/ 2>/dev/null
for f in seed_out/*_test.go; do [ -f "$f" ] && mv "$f" "$f.txt"; done   # keep ./... clean, keep the demo
cp $tmp/zz_seed_demo_test.go $wt/$pkg/zz_seed_demo_test.go
echo "== demo on original code"; (cd $wt/$pkg && go test -vet=off -count=1 -run 'Seed' . 2>&1 | tail -3); r0=${PIPESTATUS[0]}
(cd $wt/$pkg && go test -vet=off -count=1 -run 'Seed' . >/dev/null 2>&1); r0=$?
rm -f $wt/$pkg/zz_seed_demo_test.go
git apply $tmp/patch.diff || { echo "patch does not apply"; exit 2; }
echo "== build with change"; go build ./... ; rb=$?
echo "== existing suite with change"; go test -vet=off -count=1 ./... 2>&1 | grep -v "^ok\|no test files" | tail -5; go test -vet=off -count=1 ./... >/dev/null 2>&1; rs=$?
cp $tmp/zz_seed_demo_test.go $wt/$pkg/zz_seed_demo_test.go
echo "== demo with change"; (cd $wt/$pkg && go test -vet=off -count=1 -run 'Seed' . 2>&1 | grep -E "^(--- FAIL|FAIL|ok|PASS)" | head -5)
(cd $wt/$pkg && go test -vet=off -count=1 -run 'Seed' . >/dev/null 2>&1); r1=$?
rm -f $wt/$pkg/zz_seed_demo_test.go
echo "RESULT demo_orig_exit=$r0 build=$rb suite=$rs demo_changed_exit=$r1"
if [ $r0 -eq 0 ] && [ $rb -eq 0 ] && [ $rs -eq 0 ] && [ $r1 -ne 0 ]; then
  d=/verif/seeded/$id; mkdir -p $d; cp $tmp/patch.diff $d/; cp $tmp/zz_seed_demo_test.go $d/zz_seed_demo_test.go.txt; cp $tmp/notes.md $d/ 2>/dev/null; echo "$pkg" > $d/DEMO_PKG.txt
  echo "CONFIRMED -> $d"
else
  echo "NOT CONFIRMED"
fi
rm -rf $tmp
