package main

import (
	"fmt"
	"go/token"
	"go/types"
	"io"
	"sort"
	"strings"
	"sync"
	"sync/atomic"
	"time"

	"golang.org/x/tools/go/ssa"
)

type Config struct {
	Params     map[string]int
	ScaleBuf   int // scaled channel capacity (0: off)
	ScaleFrom  int // capacity constant that is scaled
	Preempt    int // preemption bound (-1: unbounded)
	MaxFires   int
	fireBudget int
	MaxSteps   int
	PermuteMaps bool
	NoRaceCheck bool
	NoSleep     bool
	NoCache     bool
	Overrides  map[string]string
	SolverTimeoutMs int
}

func (c *Config) maxFires() int {
	if c.fireBudget > 0 {
		return c.fireBudget
	}
	return c.MaxFires
}

type SymInfo struct {
	Name string
	Kind string
	T    *Term
}

type ConcInfo struct {
	Name string
	Val  int
}

type Stats struct {
	Paths        int
	PathsOK      int
	PathsEnded   int
	Branches     int
	Forks        int
	Transitions  int
	Steps        int64
	AssertChecks int
	Deadlocks    int
	Pruned       int
	Shortcuts    int
	CacheHits    int
}

type Violation struct {
	Label    string
	Msg      string
	Pos      string
	Model    map[string]string // symbol -> value text
	Concrete []ConcInfo
	UFs      []string
	Trace    []string
	Stacks   string
	PC       []string
	Decisions []Decision
	Entry    string
	SymVals  []SymVal
	Apps     []AppVal
	Lits     []string
	Params   map[string]int // parameters of the entry that produced it
}

// Shared collects results across workers.
type Shared struct {
	mu         sync.Mutex
	stats      Stats
	violations map[string][]*Violation // by label
	reached    map[string]int
	asserted   map[string]int // label -> number of checks (incl. trivially true)
	funcs      map[string]*FuncCov
	stubs      map[string]int
	bounds     map[string][2]int
	params     map[string]int
	incon      []string
	races      int
	samples    []string
	queries    int
	sat, unsat int
	solverTime time.Duration
	queue      [][]Decision
	visited    [64]visitedShard
	idle       int
	idleA      atomic.Int32
	qlenA      atomic.Int32
	cond       *sync.Cond
	done       bool
	deadline   time.Time
}

type FuncCov struct {
	Name   string
	Pos    string
	Blocks int
	Hit    map[int]bool
	Repo   bool
}

type Interp struct {
	prog   *ssa.Program
	tc     *TermCtx
	solver *Solver
	cfg    Config
	st     *State

	prefix []Decision
	trace  []Decision
	share  func(depth int) bool
	give   func(p []Decision)

	syms      []SymInfo
	concretes []ConcInfo
	axioms    []*Term
	atoiSeen  map[string]bool

	steps    int
	maxSteps int
	curPos   token.Pos
	cur      *G
	stats    Stats

	lastActive map[*G]bool
	preempts   int

	overrides  map[string]*ssa.Function
	initGlobal func(gl *ssa.Global, c *Cell)
	errType, ctxType, timeType types.Type
	timerNamed  types.Type
	timerStruct *types.Struct

	schedLog   *[]string
	traceInstr bool
	traceW     io.Writer

	initPkg  *ssa.Package
	typeHash map[types.Type]uint64
	fnHash   map[*ssa.Function]uint64
	fnInfos  map[*ssa.Function]*fnInfo
	cancelVC []int
	raceSeen bool
	epoch    int
	sh       *Shared
	entry    string
	property string
	local    localNotes
}

type localNotes struct {
	funcs   map[*ssa.Function]map[int]bool
	stubs   map[string]int
	reached map[string]int
	asserted map[string]int
	bounds  map[string][2]int
	params  map[string]int
}

func (in *Interp) resetState() {
	in.st = &State{
		globals: map[*ssa.Global]*Cell{},
		inited:  map[*ssa.Package]bool{},
		errs:    map[string]*ErrObj{},
		nsyms:   map[string]int{},
		ghost:   map[string]Value{},
		now:     in.tc.BV(0, 64),
	}
	in.trace = in.trace[:0]
	in.syms = in.syms[:0]
	in.concretes = in.concretes[:0]
	in.steps = 0
	in.cfg.fireBudget = 0
	in.lastActive = nil
	in.raceSeen = false
	in.preempts = 0
	// axioms persist across paths of a worker (they are facts about constants)
	in.st.pc = append(in.st.pc, in.axioms...)
	if in.schedLog != nil {
		*in.schedLog = (*in.schedLog)[:0]
	}
}

// ---------------------------------------------------------------- notes

func (in *Interp) cover(fn *ssa.Function, b *ssa.BasicBlock) {
	m := in.local.funcs[fn]
	if m == nil {
		m = map[int]bool{}
		in.local.funcs[fn] = m
	}
	m[b.Index] = true
}
func (in *Interp) noteFunc(fn *ssa.Function)  {}
func (in *Interp) noteStub(s string)          { in.local.stubs[s]++ }
func (in *Interp) noteSpawn(parent, child *G) {}
func (in *Interp) noteBound(tag string, lo, hi int) {
	in.local.bounds[tag] = [2]int{lo, hi}
}
func (in *Interp) noteParam(name string, v int) { in.local.params[name] = v }
func (in *Interp) reach(label string)           { in.local.reached[label]++ }
func (in *Interp) noteAccess(c *Cell, write bool) { in.noteAccessP(c, nil, write) }

func isPrefix(a, b []int) bool {
	if len(a) > len(b) {
		return false
	}
	for i := range a {
		if a[i] != b[i] {
			return false
		}
	}
	return true
}

// noteAccessP records an access to the sub-object of c at path; accesses to
// overlapping paths (one a prefix of the other) by unordered goroutines conflict.
func (in *Interp) noteAccessP(c *Cell, path []int, write bool) {
	if in.cfg.NoRaceCheck || in.cur == nil || c == nil {
		return
	}
	var exact *pathAcc
	for _, pa := range c.accs {
		if len(pa.path) == len(path) && isPrefix(pa.path, path) {
			exact = pa
			continue
		}
		if isPrefix(pa.path, path) || isPrefix(path, pa.path) {
			in.checkOnly(&pa.log, write, c.tag)
		}
	}
	if exact == nil {
		exact = &pathAcc{path: append([]int(nil), path...)}
		c.accs = append(c.accs, exact)
	}
	in.access(&exact.log, write, c.tag)
}

func (in *Interp) checkOnly(a *accessLog, write bool, what string) {
	g := in.cur
	if a.wG != nil && a.wG != g && a.wClock > g.clockOf(a.wG) {
		in.raceFound(what, a.wG, a.wPos, g, write)
	}
	if write {
		for rg, rc := range a.reads {
			if rg != g && rc > g.clockOf(rg) {
				in.raceFound(what, rg, "(read)", g, true)
			}
		}
	}
}

func (in *Interp) noteMapAccess(m *MapObj, write bool) {
	if in.cfg.NoRaceCheck || in.cur == nil || m == nil {
		return
	}
	in.access(&m.acc, write, "map")
}

func (g *G) clockOf(o *G) int {
	if o.num < len(g.vc) {
		return g.vc[o.num]
	}
	return 0
}

func (in *Interp) tick(g *G) {
	for len(g.vc) <= g.num {
		g.vc = append(g.vc, 0)
	}
	g.vc[g.num]++
}

func joinVC(a, b []int) []int {
	for len(a) < len(b) {
		a = append(a, 0)
	}
	for i, v := range b {
		if v > a[i] {
			a[i] = v
		}
	}
	return a
}

func (in *Interp) access(a *accessLog, write bool, what string) {
	g := in.cur
	me := g.clockOf(g)
	if a.wG != nil && a.wG != g && a.wClock > g.clockOf(a.wG) {
		in.raceFound(what, a.wG, a.wPos, g, write)
	}
	if write {
		for rg, rc := range a.reads {
			if rg != g && rc > g.clockOf(rg) {
				in.raceFound(what, rg, "(read)", g, true)
			}
		}
		a.wG, a.wClock, a.wPos = g, me, in.posString(in.curPos)
		a.reads = nil
	} else {
		if a.reads == nil {
			a.reads = map[*G]int{}
		}
		a.reads[g] = me
	}
}

type raceSig struct{ msg string }

func (in *Interp) raceFound(what string, og *G, opos string, g *G, write bool) {
	kind := "read"
	if write {
		kind = "write"
	}
	msg := fmt.Sprintf("unsynchronised shared access to %s: %s by goroutine %s at %s is not ordered after the access by goroutine %s at %s",
		what, kind, g.name, in.posString(in.curPos), og.name, opos)
	// reported once per path; the path continues (what the racy code goes on to do is still a real execution)
	if in.raceSeen {
		return
	}
	in.raceSeen = true
	if in.replaying() {
		return
	}
	if in.property == "C15" {
		in.local.asserted["C15/data-race"]++
		in.recordViolation("C15/data-race", msg+"\n"+in.stackOf(g), in.st.pc)
		return
	}
	if in.sh != nil {
		in.sh.mu.Lock()
		if in.sh.races < 5 {
			in.sh.incon = append(in.sh.incon, "data race (partial-order reduction assumes race freedom): "+msg+"\n"+in.stackOf(g))
		}
		in.sh.races++
		in.sh.mu.Unlock()
	}
}

func (in *Interp) permuteIter(it *MapIter) {
	if !in.cfg.PermuteMaps || len(it.Order) < 2 || len(it.Order) > 3 {
		return
	}
	// choose a permutation by successive selection
	rest := append([]*MapEntry(nil), it.Order...)
	var out []*MapEntry
	for len(rest) > 1 {
		k := in.choose(len(rest), "nondet", "maporder")
		out = append(out, rest[k])
		rest = append(rest[:k:k], rest[k+1:]...)
	}
	it.Order = append(out, rest...)
}

func (in *Interp) tryMerge(fr *Frame, c *Term) (bool, bool) { return false, false }

func pkgPathOf(fn *ssa.Function) string {
	if fn.Pkg != nil {
		return fn.Pkg.Pkg.Path()
	}
	// methods of instantiated / synthetic wrappers
	if o := fn.Object(); o != nil && o.Pkg() != nil {
		return o.Pkg().Path()
	}
	if fn.Signature.Recv() != nil {
		t := fn.Signature.Recv().Type()
		if p, ok := t.(*types.Pointer); ok {
			t = p.Elem()
		}
		if n, ok := t.(*types.Named); ok && n.Obj().Pkg() != nil {
			return n.Obj().Pkg().Path()
		}
	}
	if fn.Parent() != nil {
		return pkgPathOf(fn.Parent())
	}
	return ""
}

var allowedPkgPrefixes = []string{
	"github.com/boz/kcache",
	"github.com/boz/go-lifecycle",
	"k8s.io/apimachinery/pkg/labels",
	"k8s.io/apimachinery/pkg/selection",
	"k8s.io/apimachinery/pkg/api/meta",
	"k8s.io/apimachinery/pkg/apis/meta/v1",
	"k8s.io/apimachinery/pkg/runtime/schema",
	"k8s.io/api/",
	"sort", "errors", "strings", "unicode", "unicode/utf8", "math/bits", "slices", "cmp", "sync", "maps", "hash/fnv",
}

func (in *Interp) allowed(fn *ssa.Function) bool {
	p := pkgPathOf(fn)
	if p == "" {
		return true // synthetic wrappers / bound methods
	}
	for _, a := range allowedPkgPrefixes {
		if p == a || strings.HasPrefix(p, a+"/") || (strings.HasSuffix(a, "/") && strings.HasPrefix(p, a)) {
			return true
		}
	}
	return false
}

func (in *Interp) isHarnessFn(fn *ssa.Function) bool {
	for f := fn; f != nil; f = f.Parent() {
		if strings.HasPrefix(pkgPathOf(f), harnessPkg) {
			return true
		}
		pos := f.Pos()
		if pos.IsValid() {
			file := in.prog.Fset.Position(pos).Filename
			if strings.Contains(file, "zz_verif") {
				return true
			}
		}
	}
	return false
}

func isRepoPath(p string) bool {
	return strings.HasPrefix(p, "github.com/boz/kcache") && !strings.HasPrefix(p, harnessPkg)
}

// ---------------------------------------------------------------- assertions

func (in *Interp) assertProp(c *Term, label string) {
	in.local.asserted[label]++
	if c.IsTrue() {
		return
	}
	if in.replaying() {
		in.trace = append(in.trace, in.prefix[len(in.trace)])
		if in.prefix[len(in.trace)-1].Note != "violated" && !c.IsFalse() {
			in.pushPC(c)
		}
		return
	}
	in.stats.AssertChecks++
	if in.known(c) {
		in.trace = append(in.trace, Decision{N: 1, Kind: "assert"})
		return
	}
	neg := in.tc.Not(c)
	r := Sat
	if !c.IsFalse() {
		r = in.solver.Check(in.st.pc, neg)
	}
	if r == Unknown {
		panic(inconclusive("solver unknown on assertion " + label))
	}
	if r == Sat {
		in.recordViolation(label, "assertion violated", append(append([]*Term{}, in.st.pc...), neg))
	}
	if r == Sat {
		in.trace = append(in.trace, Decision{N: 1, Kind: "assert", Note: "violated"})
		return
	}
	in.trace = append(in.trace, Decision{N: 1, Kind: "assert"})
	if r == Sat {
		// an assertion observes, it does not assume: the path continues with an
		// unchanged path condition so that later assertions are not masked
		return
	}
	in.pushPC(c)
}

// recordViolation extracts a model for the given (satisfiable) constraint set.
func (in *Interp) recordViolation(label, msg string, cons []*Term) {
	v := &Violation{Label: label, Msg: msg, Pos: in.posString(in.curPos), Model: map[string]string{}, Entry: in.entry}
	v.Params = map[string]int{}
	for k, x := range in.local.params {
		v.Params[k] = x
	}
	for k, x := range in.cfg.Params {
		v.Params[k] = x
	}
	if in.sh != nil {
		in.sh.mu.Lock()
		n := len(in.sh.violations[label])
		in.sh.mu.Unlock()
		if n >= 3 {
			in.sh.mu.Lock()
			in.sh.violations[label] = append(in.sh.violations[label], nil)
			in.sh.mu.Unlock()
			return
		}
	}
	if in.solver.Check(cons) == Sat {
		var ts []*Term
		for _, s := range in.syms {
			ts = append(ts, s.T)
		}
		_, apps := in.tc.Collect(cons)
		all := append([]*Term{}, ts...)
		for _, a := range apps {
			all = append(all, a)
			for _, x := range a.args {
				if !x.IsConst() {
					all = append(all, x)
				}
			}
		}
		m := in.solver.Model(all)
		for _, s := range in.syms {
			val := m[s.T.id]
			v.SymVals = append(v.SymVals, SymVal{Name: s.Name, Kind: s.Kind, Val: val})
			if val != nil {
				v.Model[s.Name] = in.modelText(val)
			}
		}
		for _, a := range apps {
			val, ok := m[a.id]
			if !ok {
				continue
			}
			av := AppVal{Name: a.str, Res: val}
			var as []string
			for _, x := range a.args {
				xv := x
				if !x.IsConst() {
					xv = m[x.id]
				}
				av.Args = append(av.Args, xv)
				if xv != nil {
					as = append(as, in.modelText(xv))
				} else {
					as = append(as, "?")
				}
			}
			v.Apps = append(v.Apps, av)
			v.UFs = append(v.UFs, fmt.Sprintf("%s(%s)=%s", a.str, strings.Join(as, ","), in.modelText(val)))
		}
		seenLit := map[string]bool{}
		var walk func(t *Term)
		seenT := map[int]bool{}
		walk = func(t *Term) {
			if seenT[t.id] {
				return
			}
			seenT[t.id] = true
			if t.op == OpConstStr && !seenLit[t.str] {
				seenLit[t.str] = true
				v.Lits = append(v.Lits, t.str)
			}
			for _, a := range t.args {
				walk(a)
			}
		}
		for _, t := range cons {
			walk(t)
		}
	}
	v.Concrete = append(v.Concrete, in.concretes...)
	if in.schedLog != nil {
		v.Trace = append(v.Trace, *in.schedLog...)
	}
	for _, t := range cons {
		s := in.tc.SMT(t)
		if len(s) > 300 {
			s = s[:300] + "…"
		}
		v.PC = append(v.PC, s)
	}
	v.Decisions = append(v.Decisions, in.trace...)
	v.Stacks = in.stackOf(in.cur)
	if in.sh != nil {
		in.sh.mu.Lock()
		in.sh.violations[label] = append(in.sh.violations[label], v)
		in.sh.mu.Unlock()
	}
}

func (in *Interp) evalUnder(x *Term, m map[int]*Term) string {
	// evaluate by asking for the term's leaves in m
	if r := in.tc.Eval(x, m); r != nil {
		return in.modelText(r)
	}
	return "?"
}

func (in *Interp) modelText(t *Term) string {
	switch t.op {
	case OpConstBool:
		if t.bv == 1 {
			return "true"
		}
		return "false"
	case OpConstBV:
		return fmt.Sprint(sext(t.bv, t.sort))
	case OpConstStr:
		if strings.HasPrefix(t.str, "\x00rat:") {
			return "rat:" + t.str[5:]
		}
		return fmt.Sprintf("%q", t.str)
	}
	return in.tc.SMT(t)
}

// ---------------------------------------------------------------- exploration

type Explorer struct {
	prog      *ssa.Program
	entry     *ssa.Function
	cfg       Config
	workers   int
	sh        *Shared
	property  string
	maxPaths  int
	timeLimit time.Duration
	overrides map[string]*ssa.Function
	initGlobal func(in *Interp, gl *ssa.Global, c *Cell)
	crashLabel string
	traceSched bool
}

type visitedShard struct {
	mu sync.Mutex
	m  map[hash128][]uint64
}

// visit implements the state cache combined with sleep sets. It returns
// (prune, covered): prune when the state was seen with a sleep set contained in
// the current one; otherwise the signatures already covered elsewhere.
func (sh *Shared) visit(h hash128, sleepSigs []uint64) (bool, []uint64, bool) {
	s := &sh.visited[h.a%64]
	s.mu.Lock()
	defer s.mu.Unlock()
	if s.m == nil {
		s.m = map[hash128][]uint64{}
	}
	old, seen := s.m[h]
	if !seen {
		s.m[h] = append([]uint64(nil), sleepSigs...)
		return false, nil, false
	}
	cur := map[uint64]bool{}
	for _, x := range sleepSigs {
		cur[x] = true
	}
	var inter []uint64
	subset := true
	for _, x := range old {
		if cur[x] {
			inter = append(inter, x)
		} else {
			subset = false
		}
	}
	if subset {
		return true, nil, true
	}
	s.m[h] = inter
	return false, old, true
}

func newShared() *Shared {
	sh := &Shared{
		violations: map[string][]*Violation{},
		reached:    map[string]int{},
		asserted:   map[string]int{},
		funcs:      map[string]*FuncCov{},
		stubs:      map[string]int{},
		bounds:     map[string][2]int{},
		params:     map[string]int{},
	}
	sh.cond = sync.NewCond(&sh.mu)
	return sh
}

func (ex *Explorer) newInterp() *Interp {
	tc := NewTermCtx()
	to := ex.cfg.SolverTimeoutMs
	if to == 0 {
		to = 30000
	}
	sv, err := NewSolver(tc, "z3", to)
	if err != nil {
		panic(err)
	}
	in := &Interp{prog: ex.prog, tc: tc, solver: sv, cfg: ex.cfg, sh: ex.sh, property: ex.property,
		atoiSeen: map[string]bool{}, overrides: ex.overrides, entry: ex.entry.String(),
		typeHash: map[types.Type]uint64{}, fnHash: map[*ssa.Function]uint64{}, fnInfos: map[*ssa.Function]*fnInfo{}}
	in.maxSteps = ex.cfg.MaxSteps
	if in.maxSteps == 0 {
		in.maxSteps = 2000000
	}
	in.local = localNotes{funcs: map[*ssa.Function]map[int]bool{}, stubs: map[string]int{}, reached: map[string]int{},
		asserted: map[string]int{}, bounds: map[string][2]int{}, params: map[string]int{}}
	in.setupTypes()
	if ex.initGlobal != nil {
		in.initGlobal = func(gl *ssa.Global, c *Cell) { ex.initGlobal(in, gl, c) }
	}
	if ex.traceSched {
		var log []string
		in.schedLog = &log
	}
	return in
}

func (in *Interp) setupTypes() {
	// opaque marker types for engine objects
	mk := func(name string) types.Type {
		return types.NewNamed(types.NewTypeName(token.NoPos, nil, name, nil), types.NewStruct(nil, nil), nil)
	}
	in.errType = types.NewPointer(mk("gosym.error"))
	in.ctxType = types.NewPointer(mk("gosym.context"))
	if tp := in.prog.ImportedPackage("time"); tp != nil {
		if tm := tp.Type("Timer"); tm != nil {
			in.timerNamed = tm.Type()
			in.timerStruct = tm.Type().Underlying().(*types.Struct)
		}
		if tt := tp.Type("Time"); tt != nil {
			in.timeType = tt.Type()
		}
	}
}

func (in *Interp) flush() {
	sh := in.sh
	sh.mu.Lock()
	defer sh.mu.Unlock()
	for fn, hits := range in.local.funcs {
		name := fn.String()
		fc := sh.funcs[name]
		if fc == nil {
			fc = &FuncCov{Name: name, Pos: in.posString(fn.Pos()), Blocks: len(fn.Blocks), Hit: map[int]bool{}, Repo: isRepoPath(pkgPathOf(fn)) && !in.isHarnessFn(fn)}
			sh.funcs[name] = fc
		}
		for b := range hits {
			fc.Hit[b] = true
		}
	}
	for k, v := range in.local.stubs {
		sh.stubs[k] += v
	}
	for k, v := range in.local.reached {
		sh.reached[k] += v
	}
	for k, v := range in.local.asserted {
		sh.asserted[k] += v
	}
	for k, v := range in.local.bounds {
		sh.bounds[k] = v
	}
	for k, v := range in.local.params {
		sh.params[k] = v
	}
	sh.stats.Paths += in.stats.Paths
	sh.stats.PathsOK += in.stats.PathsOK
	sh.stats.PathsEnded += in.stats.PathsEnded
	sh.stats.Branches += in.stats.Branches
	sh.stats.Forks += in.stats.Forks
	sh.stats.Transitions += in.stats.Transitions
	sh.stats.Steps += in.stats.Steps
	sh.stats.AssertChecks += in.stats.AssertChecks
	sh.stats.Deadlocks += in.stats.Deadlocks
	sh.queries += in.solver.Queries
	sh.sat += in.solver.SatN
	sh.unsat += in.solver.UnsatN
	sh.solverTime += in.solver.Time
	for _, e := range in.solver.Errors {
		sh.incon = append(sh.incon, "solver: "+e)
	}
}

func nextPrefix(tr []Decision) []Decision {
	for i := len(tr) - 1; i >= 0; i-- {
		d := tr[i]
		if !d.Given && d.Choice+1 < d.N {
			np := append([]Decision{}, tr[:i]...)
			d.Choice++
			np = append(np, d)
			return np
		}
	}
	return nil
}

func (ex *Explorer) worker(id int, wg *sync.WaitGroup) {
	defer wg.Done()
	sh := ex.sh
	in := ex.newInterp()
	defer func() {
		in.flush()
		in.solver.Close()
	}()
	in.share = func(depth int) bool {
		if depth > 100000 {
			return false
		}
		return sh.idleA.Load() > 0 && sh.qlenA.Load() < sh.idleA.Load()
	}
	in.give = func(p []Decision) {
		sh.mu.Lock()
		sh.queue = append(sh.queue, p)
		sh.qlenA.Store(int32(len(sh.queue)))
		sh.cond.Signal()
		sh.mu.Unlock()
	}
	for {
		// fetch a prefix
		sh.mu.Lock()
		for len(sh.queue) == 0 && !sh.done {
			sh.idle++
			sh.idleA.Store(int32(sh.idle))
			if sh.idle == ex.workers {
				sh.done = true
				sh.cond.Broadcast()
				break
			}
			sh.cond.Wait()
			sh.idle--
			sh.idleA.Store(int32(sh.idle))
		}
		if sh.done {
			sh.mu.Unlock()
			return
		}
		prefix := sh.queue[len(sh.queue)-1]
		sh.queue = sh.queue[:len(sh.queue)-1]
		sh.qlenA.Store(int32(len(sh.queue)))
		sh.mu.Unlock()

		for prefix != nil {
			in.prefix = prefix
			out := in.runPath(ex.entry)
			in.stats.Paths++
			in.stats.Steps += int64(in.steps)
			ex.handleOutcome(in, out)
			prefix = nextPrefix(in.trace)
			if ex.overBudget(in) {
				sh.mu.Lock()
				if !sh.done {
					sh.incon = append(sh.incon, "exploration budget exhausted (paths/time): result is a reduced bound")
				}
				sh.done = true
				sh.cond.Broadcast()
				sh.mu.Unlock()
				return
			}
		}
	}
}

func (ex *Explorer) overBudget(in *Interp) bool {
	if !ex.sh.deadline.IsZero() && time.Now().After(ex.sh.deadline) {
		return true
	}
	return false
}

func (ex *Explorer) handleOutcome(in *Interp, out PathOutcome) {
	sh := ex.sh
	switch out.Kind {
	case "ok":
		in.stats.PathsOK++
		if in.schedLog != nil {
			sh.mu.Lock()
			if len(sh.samples) < 3 {
				sh.samples = append(sh.samples, in.describePath())
			}
			sh.mu.Unlock()
		} else {
			sh.mu.Lock()
			if len(sh.samples) < 3 {
				sh.samples = append(sh.samples, in.describePath())
			}
			sh.mu.Unlock()
		}
	case "end":
		in.stats.PathsEnded++
	case "crash":
		label := ex.crashLabel
		if label == "" {
			label = ex.property + "/crash"
		}
		in.local.asserted[label]++
		in.recordViolation(label, out.Msg+" at "+out.Pos+"\n"+out.Stacks, in.st.pc)
	case "deadlock", "livelock":
		in.stats.Deadlocks++
		label := ex.property + "/stuck"
		in.local.asserted[label]++
		in.recordViolation(label, out.Msg+"\n"+out.Stacks, in.st.pc)
	case "race":
		label := "C15/data-race"
		if ex.property == "C15" {
			in.local.asserted[label]++
			in.recordViolation(label, out.Msg+"\n"+out.Stacks, in.st.pc)
		} else {
			sh.mu.Lock()
			if len(sh.incon) < 20 {
				sh.incon = append(sh.incon, "data race (partial-order reduction assumes race freedom): "+out.Msg+"\n"+out.Stacks)
			}
			sh.mu.Unlock()
		}
	case "unsupported", "inconclusive":
		sh.mu.Lock()
		if len(sh.incon) < 20 {
			sh.incon = append(sh.incon, out.Kind+": "+out.Msg+" at "+out.Pos+"\n"+out.Stacks)
		}
		sh.mu.Unlock()
	}
}

func (in *Interp) describePath() string {
	var sb strings.Builder
	for _, c := range in.concretes {
		fmt.Fprintf(&sb, "%s=%d ", c.Name, c.Val)
	}
	n := 0
	for _, t := range in.st.pc[len(in.axioms):] {
		s := in.tc.SMT(t)
		if len(s) > 160 {
			s = s[:160] + "…"
		}
		sb.WriteString("\n  pc: " + s)
		n++
		if n > 12 {
			sb.WriteString("\n  …")
			break
		}
	}
	if in.schedLog != nil {
		for i, l := range *in.schedLog {
			if i > 40 {
				sb.WriteString("\n  …")
				break
			}
			sb.WriteString("\n  sched: " + l)
		}
	}
	return sb.String()
}

func (ex *Explorer) Run() {
	sh := ex.sh
	sh.queue = [][]Decision{{}}
	if ex.timeLimit > 0 {
		sh.deadline = time.Now().Add(ex.timeLimit)
	}
	sh.done = false
	sh.idle = 0
	sh.idleA.Store(0)
	for i := range sh.visited {
		sh.visited[i].m = nil // the state cache is per entry (parameters are not part of the state)
	}
	var wg sync.WaitGroup
	for i := 0; i < ex.workers; i++ {
		wg.Add(1)
		go ex.worker(i, &wg)
	}
	wg.Wait()
}

func sortedKeys[V any](m map[string]V) []string {
	ks := make([]string, 0, len(m))
	for k := range m {
		ks = append(ks, k)
	}
	sort.Strings(ks)
	return ks
}
