package main

// Canonical state hashing for visited-state pruning (combined with sleep sets).
// A state is serialised from its roots (goroutines in spawn-path order, their
// live registers, then everything reachable), objects are numbered in order of
// first visit, terms by structural hash, the path condition as a multiset.

import (
	"go/types"
	"math"
	"sort"

	"golang.org/x/tools/go/ssa"
)

type hash128 struct{ a, b uint64 }

type hasher struct {
	a, b   uint64
	in     *Interp
	idx    map[interface{}]int
	chanIx map[*Chan]int
}

func (h *hasher) u(x uint64) {
	h.a = (h.a ^ x) * 0x100000001b3
	h.a ^= h.a >> 29
	h.b = (h.b + x + 0x9e3779b97f4a7c15) * 0xbf58476d1ce4e5b9
	h.b ^= h.b >> 31
}

func (h *hasher) str(s string) {
	h.u(uint64(len(s)))
	for i := 0; i < len(s); i++ {
		h.u(uint64(s[i]))
	}
}

func strHash(s string) uint64 {
	var x uint64 = 14695981039346656037
	for i := 0; i < len(s); i++ {
		x = (x ^ uint64(s[i])) * 1099511628211
	}
	return x
}

// structural term hash (stable across workers)
func (c *TermCtx) thash(t *Term) uint64 {
	if t.hash != 0 {
		return t.hash
	}
	x := uint64(t.op)*0x9e3779b97f4a7c15 ^ uint64(int64(t.sort))*0xff51afd7ed558ccd ^ t.bv*0xc4ceb9fe1a85ec53 ^ strHash(t.str) ^ uint64(t.aux1)<<7 ^ uint64(t.aux2)<<13
	for i, a := range t.args {
		x = (x ^ c.thash(a)) * (0x100000001b3 + uint64(i)*2)
		x ^= x >> 32
	}
	if x == 0 {
		x = 1
	}
	t.hash = x
	return x
}

func (h *hasher) typ(t types.Type) {
	if t == nil {
		h.u(0)
		return
	}
	x, ok := h.in.typeHash[t]
	if !ok {
		x = strHash(t.String())
		h.in.typeHash[t] = x
	}
	h.u(x)
}

func (h *hasher) fn(f *ssa.Function) {
	if f == nil {
		h.u(0)
		return
	}
	x, ok := h.in.fnHash[f]
	if !ok {
		x = strHash(f.String())
		if f.Parent() != nil { // anonymous functions: add position
			x ^= uint64(f.Pos()) * 0x9e3779b97f4a7c15
		}
		h.in.fnHash[f] = x
	}
	h.u(x)
}

func (h *hasher) ref(o interface{}) bool {
	if i, ok := h.idx[o]; ok {
		h.u(uint64(i) + 1000)
		return true
	}
	h.idx[o] = len(h.idx)
	h.u(7)
	return false
}

func (h *hasher) val(v Value) {
	switch x := v.(type) {
	case nil:
		h.u(1)
	case *Term:
		h.u(2)
		h.u(h.in.tc.thash(x))
	case FloatV:
		h.u(3)
		h.u(math.Float64bits(x.F))
	case SymBytesV:
		h.u(21)
		h.u(h.in.tc.thash(x.S))
	case Ptr:
		h.u(4)
		if x.Base == nil {
			h.u(0)
			return
		}
		h.cell(x.Base)
		for _, p := range x.Path {
			h.u(uint64(p) + 1)
		}
	case *StructV:
		h.u(5)
		for _, f := range x.F {
			if f == nil {
				h.u(0) // lazily zero field
			} else {
				h.val(f)
			}
		}
	case *ArrayV:
		h.u(6)
		h.u(uint64(len(x.Elems)))
		for _, e := range x.Elems {
			if e == nil {
				h.u(0)
			} else {
				h.val(e)
			}
		}
	case SliceV:
		h.u(8)
		if x.Arr == nil {
			h.u(0)
			return
		}
		h.cell(x.Arr)
		h.u(uint64(x.Off))
		h.u(uint64(x.Len))
		h.u(uint64(x.Cap))
	case MapV:
		h.u(9)
		if x.M == nil {
			h.u(0)
			return
		}
		h.mapObj(x.M)
	case ChanV:
		h.u(10)
		h.chanObj(x.C)
	case IfaceV:
		h.u(11)
		h.typ(x.T)
		if x.T != nil {
			h.val(x.V)
		}
	case *FuncV:
		h.u(12)
		if x == nil {
			h.u(0)
			return
		}
		h.fn(x.Fn)
		h.str(x.Intrinsic)
		for _, b := range x.Bind {
			h.val(b)
		}
		if x.Data != nil {
			h.val(x.Data)
		}
		if x.Recv != nil {
			h.val(*x.Recv)
			h.str(x.Method.Name())
		}
	case TupleV:
		h.u(13)
		for _, e := range x {
			h.val(e)
		}
	case *ErrObj:
		h.u(14)
		if !h.ref(x) {
			h.str(x.Msg)
			if x.Cause != nil {
				h.val(*x.Cause)
			}
		}
	case *CtxObj:
		h.u(15)
		if !h.ref(x) {
			h.chanObj(x.Done)
			if x.Err != nil {
				h.u(1)
			} else {
				h.u(0)
			}
		}
	case *MapIter:
		h.u(16)
		if !h.ref(x) {
			if x.M != nil {
				h.mapObj(x.M)
			}
			h.u(uint64(x.Pos))
			h.u(uint64(x.strPos))
			for _, e := range x.Order {
				h.val(e.K)
			}
			if x.Str != nil {
				h.val(x.Str)
			}
		}
	default:
		panic("hash: unknown value kind")
	}
}

func (h *hasher) cell(c *Cell) {
	if h.ref(c) {
		return
	}
	h.val(c.V)
	if c.timer != nil {
		h.timer(c.timer)
	}
}

func (h *hasher) timer(t *TimerObj) {
	if h.ref(t) {
		return
	}
	if t.Armed {
		h.u(1)
	} else {
		h.u(0)
	}
	if t.deadline != nil {
		h.u(h.in.tc.thash(t.deadline))
	}
	h.chanObj(t.C)
	if t.Fn != nil {
		h.val(t.Fn)
	}
}

func (h *hasher) mapObj(m *MapObj) {
	if h.ref(m) {
		return
	}
	h.u(uint64(m.N))
	for _, e := range m.Entries {
		if e.Deleted {
			continue
		}
		h.val(e.K)
		h.val(e.V)
	}
}

func (h *hasher) chanObj(c *Chan) {
	if c == nil {
		h.u(0)
		return
	}
	if i, ok := h.chanIx[c]; ok {
		h.u(uint64(i) + 5000)
		return
	}
	h.chanIx[c] = len(h.chanIx)
	h.u(uint64(c.Cap) + 17)
	if c.Closed {
		h.u(1)
	} else {
		h.u(0)
	}
	h.u(uint64(len(c.Buf)))
	for _, v := range c.Buf {
		h.val(v)
	}
}

// ---- register liveness (approximate, per function)

type fnInfo struct {
	vals  []ssa.Value            // all registers in canonical order
	index map[ssa.Value]int
	uses  map[ssa.Value][]usePos // use sites
	reach [][]bool               // reach[b][u]: block u reachable from b through >= 1 edge
}

type usePos struct{ block, idx int }

func (in *Interp) fnInfoOf(f *ssa.Function) *fnInfo {
	if fi, ok := in.fnInfos[f]; ok {
		return fi
	}
	fi := &fnInfo{uses: map[ssa.Value][]usePos{}, index: map[ssa.Value]int{}}
	for _, p := range f.Params {
		fi.vals = append(fi.vals, p)
	}
	for _, p := range f.FreeVars {
		fi.vals = append(fi.vals, p)
	}
	n := len(f.Blocks)
	for _, b := range f.Blocks {
		for i, ins := range b.Instrs {
			if v, ok := ins.(ssa.Value); ok {
				fi.vals = append(fi.vals, v)
			}
			if phi, ok := ins.(*ssa.Phi); ok {
				// a phi reads its operands on the incoming edges: count them as used at the end of each predecessor
				for k, e := range phi.Edges {
					if _, isC := e.(*ssa.Const); !isC && k < len(b.Preds) {
						fi.uses[e] = append(fi.uses[e], usePos{b.Preds[k].Index, 1 << 30})
					}
				}
				continue
			}
			for _, op := range ins.Operands(nil) {
				if *op != nil {
					fi.uses[*op] = append(fi.uses[*op], usePos{b.Index, i})
				}
			}
		}
	}
	for i, v := range fi.vals {
		fi.index[v] = i
	}
	fi.reach = make([][]bool, n)
	for i := range fi.reach {
		fi.reach[i] = make([]bool, n)
		var stack []*ssa.BasicBlock
		stack = append(stack, f.Blocks[i].Succs...)
		for len(stack) > 0 {
			b := stack[len(stack)-1]
			stack = stack[:len(stack)-1]
			if fi.reach[i][b.Index] {
				continue
			}
			fi.reach[i][b.Index] = true
			stack = append(stack, b.Succs...)
		}
	}
	in.fnInfos[f] = fi
	return fi
}

func (fi *fnInfo) live(v ssa.Value, block, pc int) bool {
	for _, u := range fi.uses[v] {
		if u.block == block && u.idx >= pc {
			return true
		}
		if fi.reach[block][u.block] {
			return true
		}
	}
	return false
}

func (h *hasher) frame(fr *Frame) {
	if fr.fn == nil {
		h.u(99)
		for _, v := range fr.extra {
			h.val(v)
		}
		return
	}
	h.fn(fr.fn)
	h.u(uint64(fr.block.Index))
	h.u(uint64(fr.pc))
	fi := h.in.fnInfoOf(fr.fn)
	for i, v := range fi.vals {
		r, ok := fr.getReg(v)
		if !ok || !fi.live(v, fr.block.Index, fr.pc) {
			continue
		}
		h.u(uint64(i) + 3)
		h.val(r)
	}
	for _, d := range fr.defers {
		h.u(77)
		h.val(d.fv)
		for _, a := range d.args {
			h.val(a)
		}
	}
	if fr.retTo != nil {
		h.u(5)
	}
}

// stateHash hashes the whole state; also returns the channel numbering used
// (for canonical transition signatures).
func (in *Interp) stateHash() (hash128, map[*Chan]int) {
	h := &hasher{a: 14695981039346656037, b: 0x2545F4914F6CDD1D, in: in, idx: map[interface{}]int{}, chanIx: map[*Chan]int{}}
	gs := append([]*G(nil), in.st.gs...)
	sort.Slice(gs, func(i, j int) bool { return gs[i].name < gs[j].name })
	for _, g := range gs {
		if g.status == GDone {
			continue
		}
		h.str(g.name)
		h.u(uint64(g.status))
		for _, fr := range g.frames {
			h.frame(fr)
		}
		if g.pend != nil {
			h.u(uint64(g.pend.kind) + 31)
		}
	}
	// globals (sorted by name)
	type gc struct {
		name string
		c    *Cell
	}
	var gl []gc
	for g, c := range in.st.globals {
		gl = append(gl, gc{g.String(), c})
	}
	sort.Slice(gl, func(i, j int) bool { return gl[i].name < gl[j].name })
	for _, x := range gl {
		h.str(x.name)
		h.cell(x.c)
	}
	for _, t := range in.st.timers {
		h.timer(t)
	}
	// path condition as a multiset
	var sum, xor uint64
	for _, t := range in.st.pc {
		x := in.tc.thash(t)
		sum += x * 0x9e3779b97f4a7c15
		xor ^= x
	}
	h.u(sum)
	h.u(xor)
	h.u(uint64(in.st.fires))
	h.u(uint64(in.cfg.fireBudget))
	h.u(in.tc.thash(in.st.now))
	// fresh-symbol counters
	var ks []string
	for k := range in.st.nsyms {
		ks = append(ks, k)
	}
	sort.Strings(ks)
	for _, k := range ks {
		h.str(k)
		h.u(uint64(in.st.nsyms[k]))
	}
	return hash128{h.a, h.b}, h.chanIx
}

// transSig: canonical signature of a transition in the current state
func (in *Interp) transSig(t Trans, chanIx map[*Chan]int) uint64 {
	x := uint64(t.kind)*31 + uint64(int64(t.ci)+2)*131 + uint64(int64(t.ci2)+2)*1031
	if t.g != nil {
		x ^= strHash(t.g.name)
	}
	if t.g2 != nil {
		x ^= strHash(t.g2.name) * 3
	}
	if t.ch != nil {
		if i, ok := chanIx[t.ch]; ok {
			x ^= uint64(i+1) * 0x9e3779b97f4a7c15
		} else {
			x ^= 0xdeadbeef
		}
	}
	if t.timer != nil && t.timer.C != nil {
		if i, ok := chanIx[t.timer.C]; ok {
			x ^= uint64(i+1) * 0xc4ceb9fe1a85ec53
		}
	}
	return x
}
