package main

// Model of hash/fnv over symbolic strings.
//
// Symbolic strings have no byte model (they are order-preserving reals), so
// h.Write([]byte(s)) for a symbolic s cannot run the real FNV loop. The state
// update is an uninterpreted function step(state, s) instead, constrained to be
// injective over the applications that occur on the path: two different
// (state, string) pairs never produce the same state. This states the
// assumption "no FNV collisions among the handful of strings in play"; what a
// caller does with the hash values (xor, multiply, compare, use as key) is
// executed exactly. Counterexamples are replayed natively against the real
// hash, so a model artefact cannot be reported as a violation. Concrete byte
// slices run the real hash/fnv code.

import "go/types"

type condIntrinsicFn func(in *Interp, g *G, fv *FuncV, args []Value) (Value, bool)

var condIntrinsics = map[string]condIntrinsicFn{}

type hashApp struct{ st, s, res *Term }

func fnvWrite(width int, uf string) condIntrinsicFn {
	return func(in *Interp, g *G, fv *FuncV, a []Value) (Value, bool) {
		sb, ok := a[1].(SymBytesV)
		if !ok {
			return nil, false
		}
		tc := in.tc
		p := a[0].(Ptr)
		cur := in.load(p).(*Term)
		res := tc.UF(uf, Sort(width), cur, sb.S)
		for _, o := range in.st.hashApps[uf] {
			if o.res == res {
				continue
			}
			same := tc.And(tc.Eq(o.st, cur), tc.Eq(o.s, sb.S))
			ax := tc.Or(same, tc.Not(tc.Eq(o.res, res)))
			if !ax.IsTrue() {
				in.st.pc = append(in.st.pc, ax)
			}
		}
		if in.st.hashApps == nil {
			in.st.hashApps = map[string][]hashApp{}
		}
		in.st.hashApps[uf] = append(in.st.hashApps[uf], hashApp{cur, sb.S, res})
		in.store(p, res)
		// (n int, err error): n = len(s) is not modelled; callers of hash.Write ignore it
		return TupleV{tc.UF("strlen", Sort(64), sb.S), IfaceV{}}, true
	}
}

func init() {
	condIntrinsics["(*hash/fnv.sum32).Write"] = fnvWrite(32, "fnv32")
	condIntrinsics["(*hash/fnv.sum32a).Write"] = fnvWrite(32, "fnv32a")
	condIntrinsics["(*hash/fnv.sum64).Write"] = fnvWrite(64, "fnv64")
	condIntrinsics["(*hash/fnv.sum64a).Write"] = fnvWrite(64, "fnv64a")
}

var _ types.Type
