package main

import (
	"fmt"
	"go/constant"
	"go/token"
	"go/types"
	"strings"

	"golang.org/x/tools/go/ssa"
)

type deferred struct {
	fv   *FuncV
	args []Value
}

type Frame struct {
	fn     *ssa.Function
	block  *ssa.BasicBlock
	prev   *ssa.BasicBlock
	pc     int
	regs   []Value
	info   *fnInfo
	extra  map[ssa.Value]Value // trampoline frames only
	defers []deferred
	retTo  ssa.Value // register in the caller frame receiving the result (nil: discard)
	result Value
	// callSync support: when set, returning from this frame stops runLocal
	syncRet bool
}

type GStatus int

const (
	GRunnable GStatus = iota
	GPending          // at a visible operation (g.pend != nil)
	GDone
)

type PendKind int

const (
	PSend PendKind = iota
	PRecv
	PSelect
	PClose
	PCancel
	PQuiesce
	PYield
	PTimer // NewTimer / AfterFunc / Stop / Reset
	PNow   // read of the logical clock
	PCond  // blocked until a condition on engine state holds (WaitGroup.Wait)
)

type SelCase struct {
	send bool
	ch   *Chan
	val  Value
}

type PendOp struct {
	kind       PendKind
	ch         *Chan
	val        Value
	cases      []SelCase
	hasDefault bool
	ctx        *CtxObj
	timer      *TimerObj
	ops        []opRef
	cond       func() bool
	// completion callbacks
	done     func()                           // send / close / cancel / quiesce / yield
	recv     func(v Value, ok bool)           // recv
	selected func(idx int, v Value, ok bool)  // select; idx -1 = default
	pos      token.Pos
}

type G struct {
	num    int
	name   string // spawn path
	frames []*Frame
	status GStatus
	pend   *PendOp
	spawns int
	lib    bool // spawned by library code (not by harness code)
	site   string
	vc     []int
}

type State struct {
	pc      []*Term
	facts   map[*Term]bool
	nextID  int
	gs      []*G
	timers  []*TimerObj
	globals map[*ssa.Global]*Cell
	inited  map[*ssa.Package]bool
	errs    map[string]*ErrObj
	nsyms   map[string]int
	fires   int
	now     *Term
	bgCtx   *CtxObj
	ghost   map[string]Value
	auxs    map[auxKey]*AuxObj
	hashApps map[string][]hashApp
}

func (in *Interp) newG(parent *G, fv *FuncV, args []Value, site string) *G {
	g := &G{num: len(in.st.gs)}
	if parent == nil {
		g.name = "main"
	} else {
		parent.spawns++
		g.name = fmt.Sprintf("%s.%d", parent.name, parent.spawns)
	}
	g.site = site
	if parent != nil {
		g.vc = append([]int(nil), parent.vc...)
		in.tick(parent)
	}
	for len(g.vc) <= g.num {
		g.vc = append(g.vc, 0)
	}
	g.vc[g.num] = 1
	in.st.gs = append(in.st.gs, g)
	in.pushCall(g, fv, args, nil)
	return g
}

// unset marks a register that has not been assigned (nil is a legal value)
type unsetT struct{}

func (fr *Frame) setReg(v ssa.Value, x Value) {
	if fr.info == nil {
		fr.extra[v] = x
		return
	}
	i, ok := fr.info.index[v]
	if !ok {
		panic("setReg: value not of this function: " + v.Name())
	}
	if x == nil {
		x = nilReg
	}
	fr.regs[i] = x
}

var nilReg Value = unsetT{}

func (fr *Frame) getReg(v ssa.Value) (Value, bool) {
	if fr.info == nil {
		x, ok := fr.extra[v]
		return x, ok
	}
	i, ok := fr.info.index[v]
	if !ok {
		return nil, false
	}
	x := fr.regs[i]
	if x == nil {
		return nil, false
	}
	if x == nilReg {
		return nil, true
	}
	return x, true
}

func (g *G) top() *Frame { return g.frames[len(g.frames)-1] }

// ---------------------------------------------------------------- operands

func (in *Interp) get(fr *Frame, v ssa.Value) Value {
	switch x := v.(type) {
	case *ssa.Const:
		return in.constVal(x)
	case *ssa.Function:
		return &FuncV{Fn: x}
	case *ssa.Global:
		return Ptr{Base: in.globalCell(x)}
	case *ssa.Builtin:
		return &FuncV{Intrinsic: "builtin:" + x.Name()}
	}
	r, ok := fr.getReg(v)
	if !ok {
		panic(fmt.Sprintf("register %s (%T) undefined in %s", v.Name(), v, fr.fn))
	}
	return r
}

func (in *Interp) constVal(c *ssa.Const) Value {
	t := c.Type()
	if c.Value == nil {
		return in.zero(t)
	}
	switch u := t.Underlying().(type) {
	case *types.Basic:
		switch {
		case u.Info()&types.IsBoolean != 0:
			return in.tc.Bool(constant.BoolVal(c.Value))
		case u.Info()&types.IsString != 0:
			return in.tc.Str(constant.StringVal(c.Value))
		case u.Info()&types.IsInteger != 0:
			if u.Info()&types.IsUnsigned != 0 {
				n, _ := constant.Uint64Val(constant.ToInt(c.Value))
				return in.tc.BV(n, intWidth(u))
			}
			n, _ := constant.Int64Val(constant.ToInt(c.Value))
			return in.tc.BV(uint64(n), intWidth(u))
		case u.Info()&types.IsFloat != 0:
			f, _ := constant.Float64Val(c.Value)
			return FloatV{f}
		}
	}
	panic(unsupported("constant of type " + t.String()))
}

func (in *Interp) globalCell(gl *ssa.Global) *Cell {
	if c, ok := in.st.globals[gl]; ok {
		return c
	}
	et := gl.Type().(*types.Pointer).Elem()
	c := in.newCell(et, in.zero(et), "global "+gl.String())
	in.st.globals[gl] = c
	// package-level error sentinels are modelled as distinct opaque errors
	if in.initGlobal != nil {
		in.initGlobal(gl, c)
	}
	return c
}

// ---------------------------------------------------------------- calls

func (in *Interp) pushCall(g *G, fv *FuncV, args []Value, retTo ssa.Value) {
	if fv == nil {
		panic(goPanic("call of nil function"))
	}
	if fv.Recv != nil { // bound interface method value
		in.invoke(g, *fv.Recv, fv.Method, args, retTo)
		return
	}
	if fv.Intrinsic != "" {
		h, ok := intrinsics[fv.Intrinsic]
		if !ok {
			panic(unsupported("intrinsic " + fv.Intrinsic))
		}
		res := h(in, g, fv, args)
		if retTo != nil && len(g.frames) > 0 {
			g.top().setReg(retTo, res)
		}
		return
	}
	fn := fv.Fn
	name := fn.String()
	if in.initPkg != nil && fn.Pkg != nil && fn.Pkg != in.initPkg && fn.Name() == "init" {
		return // dependency initialisers are not executed (see initGlobalFn)
	}
	if o := fn.Origin(); o != nil && o != fn {
		// instantiation of a generic function: intrinsics are keyed by the generic origin
		if _, ok := intrinsics[o.String()]; ok {
			name = o.String()
		}
	}
	if h, ok := intrinsics[name]; ok {
		in.noteStub(name)
		res := h(in, g, fv, args)
		if retTo != nil && len(g.frames) > 0 {
			g.top().setReg(retTo, res)
		}
		return
	}
	if h, ok := condIntrinsics[name]; ok {
		if res, handled := h(in, g, fv, args); handled {
			in.noteStub(name + " (symbolic input)")
			if retTo != nil && len(g.frames) > 0 {
				g.top().setReg(retTo, res)
			}
			return
		}
	}
	if fn.Synthetic == "" || fn.Pkg != nil {
		if ov, ok := in.overrides[name]; ok {
			in.noteStub(name + " -> " + ov.String())
			fn = ov
		}
	}
	if len(fn.Blocks) == 0 {
		panic(unsupported("function without body: " + name))
	}
	if !in.allowed(fn) {
		panic(unsupported("call into unmodelled package: " + name))
	}
	if len(g.frames) > 400 {
		panic(unsupported("call depth exceeded at " + name))
	}
	in.noteFunc(fn)
	fi := in.fnInfoOf(fn)
	fr := &Frame{fn: fn, block: fn.Blocks[0], regs: make([]Value, len(fi.vals)), info: fi, retTo: retTo}
	if len(args) != len(fn.Params) {
		panic(fmt.Sprintf("arity mismatch calling %s: %d args, %d params", name, len(args), len(fn.Params)))
	}
	for i, p := range fn.Params {
		fr.setReg(p, args[i])
	}
	for i, fvr := range fn.FreeVars {
		fr.setReg(fvr, fv.Bind[i])
	}
	g.frames = append(g.frames, fr)
}

func (in *Interp) invoke(g *G, recv IfaceV, m *types.Func, args []Value, retTo ssa.Value) {
	if recv.T == nil {
		panic(goPanic("nil pointer dereference (method call on nil interface: " + m.Name() + ")"))
	}
	// engine builtin objects
	switch obj := recv.V.(type) {
	case *ErrObj:
		res := in.errMethod(obj, m.Name(), args)
		if retTo != nil {
			g.top().setReg(retTo, res)
		}
		return
	case *CtxObj:
		res := in.ctxMethod(obj, m.Name(), args)
		if retTo != nil {
			g.top().setReg(retTo, res)
		}
		return
	}
	sel := in.prog.MethodSets.MethodSet(recv.T).Lookup(m.Pkg(), m.Name())
	if sel == nil {
		panic(fmt.Sprintf("method %s not found on %s", m.Name(), recv.T))
	}
	fn := in.prog.MethodValue(sel)
	if fn == nil {
		panic(unsupported("abstract method " + m.Name() + " on " + recv.T.String()))
	}
	in.pushCall(g, &FuncV{Fn: fn}, append([]Value{recv.V}, args...), retTo)
}

// resolve a CallCommon into a function value + argument list
func (in *Interp) resolveCall(fr *Frame, c *ssa.CallCommon) (*FuncV, []Value) {
	args := make([]Value, 0, len(c.Args)+1)
	if c.IsInvoke() {
		recv := in.get(fr, c.Value).(IfaceV)
		for _, a := range c.Args {
			args = append(args, in.get(fr, a))
		}
		r := recv
		return &FuncV{Recv: &r, Method: c.Method}, args
	}
	for _, a := range c.Args {
		args = append(args, in.get(fr, a))
	}
	fv, _ := in.get(fr, c.Value).(*FuncV)
	return fv, args
}

// callSync runs fv(args) to completion on g (must not block) and returns its result.
func (in *Interp) callSync(g *G, fv *FuncV, args []Value) Value {
	// a tiny trampoline frame receives the result
	tramp := &Frame{fn: nil, extra: map[ssa.Value]Value{}}
	g.frames = append(g.frames, tramp)
	depth := len(g.frames)
	key := ssa.Value(resultKey)
	in.pushCall(g, fv, args, key)
	for len(g.frames) > depth {
		if in.stepInstr(g) {
			panic(unsupported("blocking operation inside synchronous callback"))
		}
	}
	g.frames = g.frames[:depth-1]
	return tramp.extra[key]
}

var resultKey = &ssa.Parameter{}

// ---------------------------------------------------------------- main step

// stepInstr executes one instruction of g. It returns true when g is now at a
// visible operation (g.pend set) or finished.
func (in *Interp) stepInstr(g *G) bool {
	fr := g.top()
	if fr.fn == nil {
		panic("stepInstr on trampoline frame")
	}
	instr := fr.block.Instrs[fr.pc]
	in.steps++
	if in.steps > in.maxSteps {
		panic(unsupported("step budget exceeded (unwinding assertion)"))
	}
	in.cover(fr.fn, fr.block)
	if in.traceInstr {
		fmt.Fprintf(in.traceW, "[%s] %s: %s\n", g.name, fr.fn.Name(), instr)
	}
	in.curPos = instr.Pos()
	switch x := instr.(type) {
	case *ssa.Alloc:
		et := x.Type().(*types.Pointer).Elem()
		fr.setReg(x, Ptr{Base: in.newCell(et, in.zero(et), x.Comment)})
	case *ssa.BinOp:
		fr.setReg(x, in.binop(x.Op, in.get(fr, x.X), in.get(fr, x.Y), x.X.Type(), x.Y.Type()))
	case *ssa.UnOp:
		if x.Op == token.ARROW {
			ch := in.get(fr, x.X).(ChanV)
			g.status = GPending
			g.pend = &PendOp{kind: PRecv, ch: ch.C, pos: x.Pos(), recv: func(v Value, ok bool) {
				if v == nil {
					v = in.zero(x.X.Type().Underlying().(*types.Chan).Elem())
				}
				if x.CommaOk {
					fr.setReg(x, TupleV{v, in.tc.Bool(ok)})
				} else {
					fr.setReg(x, v)
				}
				fr.pc++
			}}
			return true
		}
		fr.setReg(x, in.unop(x, in.get(fr, x.X)))
	case *ssa.Call:
		return in.doCall(g, fr, x)
	case *ssa.ChangeInterface:
		fr.setReg(x, in.get(fr, x.X))
	case *ssa.ChangeType:
		fr.setReg(x, in.get(fr, x.X))
	case *ssa.Convert:
		fr.setReg(x, in.convert(in.get(fr, x.X), x.X.Type(), x.Type()))
	case *ssa.MultiConvert:
		fr.setReg(x, in.convert(in.get(fr, x.X), x.X.Type(), x.Type()))
	case *ssa.Defer:
		fv, args := in.resolveCall(fr, &x.Call)
		fr.defers = append(fr.defers, deferred{fv, args})
	case *ssa.Extract:
		fr.setReg(x, in.get(fr, x.Tuple).(TupleV)[x.Index])
	case *ssa.Field:
		fr.setReg(x, in.field(in.get(fr, x.X).(*StructV), x.Field))
	case *ssa.FieldAddr:
		p := in.get(fr, x.X).(Ptr)
		if p.Base == nil {
			panic(goPanic("nil pointer dereference"))
		}
		fr.setReg(x, subPath(p, x.Field))
	case *ssa.Go:
		fv, args := in.resolveCall(fr, &x.Call)
		ng := in.newG(g, fv, args, in.posString(x.Pos()))
		ng.lib = !in.isHarnessFn(fr.fn)
		in.noteSpawn(g, ng)
	case *ssa.If:
		c := in.get(fr, x.Cond).(*Term)
		var taken bool
		if c.IsConst() {
			taken = c.IsTrue()
		} else if r, ok := in.tryMerge(fr, c); ok {
			_ = r
			return false
		} else {
			taken = in.branch(c)
		}
		if taken {
			in.jump(fr, fr.block.Succs[0])
		} else {
			in.jump(fr, fr.block.Succs[1])
		}
		return false
	case *ssa.Index:
		idx := in.concreteInt(in.get(fr, x.Index).(*Term))
		switch a := in.get(fr, x.X).(type) {
		case *ArrayV:
			fr.setReg(x, in.elem(a, idx))
		case *Term:
			fr.setReg(x, in.strIndex(a, idx))
		default:
			panic(unsupported(fmt.Sprintf("Index on %T", a)))
		}
	case *ssa.IndexAddr:
		idx := in.concreteInt(in.get(fr, x.Index).(*Term))
		switch a := in.get(fr, x.X).(type) {
		case SliceV:
			if idx < 0 || idx >= a.Len {
				panic(goPanic(fmt.Sprintf("index out of range [%d] with length %d", idx, a.Len)))
			}
			fr.setReg(x, Ptr{Base: a.Arr, Path: []int{a.Off + idx}})
		case Ptr:
			if a.Base == nil {
				panic(goPanic("nil pointer dereference"))
			}
			arr := in.load(a).(*ArrayV)
			if idx < 0 || idx >= len(arr.Elems) {
				panic(goPanic("index out of range"))
			}
			fr.setReg(x, subPath(a, idx))
		default:
			panic(unsupported(fmt.Sprintf("IndexAddr on %T", a)))
		}
	case *ssa.Jump:
		in.jump(fr, fr.block.Succs[0])
		return false
	case *ssa.Lookup:
		fr.setReg(x, in.lookup(x, in.get(fr, x.X), in.get(fr, x.Index)))
	case *ssa.MakeChan:
		n := in.concreteInt(in.get(fr, x.Size).(*Term))
		n = in.scaleChanCap(x, n)
		fr.setReg(x, ChanV{in.newChan(n, x.Type().Underlying().(*types.Chan).Elem(), in.posString(x.Pos()))})
	case *ssa.MakeClosure:
		fv := &FuncV{Fn: x.Fn.(*ssa.Function)}
		for _, b := range x.Bindings {
			fv.Bind = append(fv.Bind, in.get(fr, b))
		}
		fr.setReg(x, fv)
	case *ssa.MakeInterface:
		fr.setReg(x, IfaceV{T: x.X.Type(), V: in.get(fr, x.X)})
	case *ssa.MakeMap:
		in.st.nextID++
		fr.setReg(x, MapV{&MapObj{id: in.st.nextID, T: x.Type().Underlying().(*types.Map)}})
	case *ssa.MakeSlice:
		l := in.concreteInt(in.get(fr, x.Len).(*Term))
		c := in.concreteInt(in.get(fr, x.Cap).(*Term))
		if l < 0 || c < l {
			panic(goPanic("makeslice: len out of range"))
		}
		et := x.Type().Underlying().(*types.Slice).Elem()
		arr := in.newCell(types.NewArray(et, int64(c)), &ArrayV{Elem: et, Elems: make([]Value, c)}, "makeslice")
		fr.setReg(x, SliceV{Arr: arr, Off: 0, Len: l, Cap: c})
	case *ssa.MapUpdate:
		in.mapUpdate(in.get(fr, x.Map).(MapV), in.get(fr, x.Key), in.get(fr, x.Value))
	case *ssa.Next:
		fr.setReg(x, in.next(x, in.get(fr, x.Iter).(*MapIter)))
	case *ssa.Panic:
		v := in.get(fr, x.X)
		panic(goPanic("panic: " + in.show(v)))
	case *ssa.Phi:
		// all phis of a block are evaluated together on entry (see jump)
		panic("phi reached in stepInstr")
	case *ssa.Range:
		fr.setReg(x, in.rangeIter(in.get(fr, x.X)))
	case *ssa.Return:
		var res Value
		switch len(x.Results) {
		case 0:
		case 1:
			res = in.get(fr, x.Results[0])
		default:
			tv := make(TupleV, len(x.Results))
			for i, r := range x.Results {
				tv[i] = in.get(fr, r)
			}
			res = tv
		}
		in.doReturn(g, fr, res)
		return g.status == GDone
	case *ssa.RunDefers:
		if n := len(fr.defers); n > 0 {
			d := fr.defers[n-1]
			fr.defers = fr.defers[:n-1]
			// pc is not advanced: RunDefers is re-executed until the list is empty
			return in.callValue(g, d.fv, d.args, nil, func() {})
		}
	case *ssa.Select:
		op := &PendOp{kind: PSelect, hasDefault: !x.Blocking, pos: x.Pos()}
		for _, st := range x.States {
			ch := in.get(fr, st.Chan).(ChanV)
			sc := SelCase{send: st.Dir == types.SendOnly, ch: ch.C}
			if sc.send {
				sc.val = in.get(fr, st.Send)
			}
			op.cases = append(op.cases, sc)
		}
		op.selected = func(idx int, v Value, ok bool) {
			tv := make(TupleV, 2+countRecv(x))
			tv[0] = in.tc.BV(uint64(int64(idx)), 64)
			tv[1] = in.tc.Bool(ok)
			k := 2
			for i, st := range x.States {
				if st.Dir == types.RecvOnly {
					et := st.Chan.Type().Underlying().(*types.Chan).Elem()
					if i == idx && v != nil {
						tv[k] = v
					} else {
						tv[k] = in.zero(et)
					}
					k++
				}
			}
			fr.setReg(x, tv)
			fr.pc++
		}
		g.status = GPending
		g.pend = op
		return true
	case *ssa.Send:
		ch := in.get(fr, x.Chan).(ChanV)
		g.status = GPending
		g.pend = &PendOp{kind: PSend, ch: ch.C, val: in.get(fr, x.X), pos: x.Pos(), done: func() { fr.pc++ }}
		return true
	case *ssa.Slice:
		fr.setReg(x, in.sliceOp(fr, x))
	case *ssa.SliceToArrayPointer:
		panic(unsupported("SliceToArrayPointer"))
	case *ssa.Store:
		in.store(in.get(fr, x.Addr).(Ptr), in.get(fr, x.Val))
	case *ssa.TypeAssert:
		fr.setReg(x, in.typeAssert(x, in.get(fr, x.X).(IfaceV)))
	case *ssa.DebugRef:
	default:
		panic(unsupported(fmt.Sprintf("instruction %T", instr)))
	}
	fr.pc++
	return false
}

func countRecv(x *ssa.Select) int {
	n := 0
	for _, st := range x.States {
		if st.Dir == types.RecvOnly {
			n++
		}
	}
	return n
}

func (in *Interp) jump(fr *Frame, to *ssa.BasicBlock) {
	from := fr.block
	fr.prev = from
	fr.block = to
	fr.pc = 0
	// evaluate phis simultaneously
	var idx = -1
	for i, p := range to.Preds {
		if p == from {
			idx = i
			break
		}
	}
	var vals []Value
	n := 0
	for _, ins := range to.Instrs {
		phi, ok := ins.(*ssa.Phi)
		if !ok {
			break
		}
		vals = append(vals, in.get(fr, phi.Edges[idx]))
		n++
	}
	for i := 0; i < n; i++ {
		fr.setReg(to.Instrs[i].(*ssa.Phi), vals[i])
	}
	fr.pc = n
	in.cover(fr.fn, to)
}

func (in *Interp) doReturn(g *G, fr *Frame, res Value) {
	g.frames = g.frames[:len(g.frames)-1]
	if len(g.frames) == 0 {
		g.status = GDone
		return
	}
	caller := g.top()
	if fr.retTo != nil {
		caller.setReg(fr.retTo, res)
	}
	if caller.fn != nil {
		// advance the caller past its call instruction unless it is re-executing RunDefers
		if _, isRD := caller.block.Instrs[caller.pc].(*ssa.RunDefers); !isRD {
			caller.pc++
		}
	}
}

// doCall handles an ssa.Call instruction. Returns true if g is now pending/done.
func (in *Interp) doCall(g *G, fr *Frame, x *ssa.Call) bool {
	fv, args := in.resolveCall(fr, &x.Call)
	return in.callValue(g, fv, args, x, func() { fr.pc++ })
}

// callValue calls fv; adv is invoked when the call completed without pushing a
// frame (intrinsic / builtin), to advance the caller.
func (in *Interp) callValue(g *G, fv *FuncV, args []Value, retTo ssa.Value, adv func()) bool {
	if fv == nil {
		panic(goPanic("call of nil function"))
	}
	// visible operations hidden in calls
	name := fv.Intrinsic
	if name == "" && fv.Fn != nil {
		name = fv.Fn.String()
	}
	switch name {
	case "builtin:close":
		ch := args[0].(ChanV)
		g.status = GPending
		g.pend = &PendOp{kind: PClose, ch: ch.C, pos: in.curPos, done: adv}
		return true
	case "ctx.cancel":
		ctx := fv.Data.(*CtxObj)
		if ctx.Err != nil {
			adv()
			return false
		}
		g.status = GPending
		g.pend = &PendOp{kind: PCancel, ctx: ctx, pos: in.curPos, done: adv}
		return true
	case harnessPkg + ".Quiesce":
		g.status = GPending
		g.pend = &PendOp{kind: PQuiesce, pos: in.curPos, done: adv}
		return true
	case harnessPkg + ".Yield":
		g.status = GPending
		g.pend = &PendOp{kind: PYield, pos: in.curPos, done: adv}
		return true
	case "time.NewTimer", "time.AfterFunc", "time.After", "(*time.Timer).Stop", "(*time.Timer).Reset", harnessPkg + ".Now":
		// timer operations and clock reads are visible: their order relative to timer fires matters
		kind := PTimer
		if name == harnessPkg+".Now" {
			kind = PNow
		}
		var tm *TimerObj
		if strings.HasPrefix(name, "(*time.Timer)") {
			tm = timerOf(args[0])
		}
		h := intrinsics[name]
		g.status = GPending
		g.pend = &PendOp{kind: kind, timer: tm, pos: in.curPos, done: func() {
			res := h(in, g, fv, args)
			if retTo != nil {
				g.top().setReg(retTo, res)
			}
			adv()
		}}
		return true
	}
	if strings.HasPrefix(name, "(*sync.") || name == "time.Sleep" {
		if in.syncVisible(g, name, args, retTo, adv) {
			return true
		}
	}
	depth := len(g.frames)
	in.pushCall(g, fv, args, retTo)
	if len(g.frames) == depth {
		adv()
	}
	return false
}

func (in *Interp) posString(p token.Pos) string {
	if !p.IsValid() {
		return "?"
	}
	ps := in.prog.Fset.Position(p)
	f := ps.Filename
	if i := strings.LastIndex(f, "/"); i >= 0 {
		f = f[i+1:]
	}
	return fmt.Sprintf("%s:%d", f, ps.Line)
}
