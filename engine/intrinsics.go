package main

import (
	"fmt"
	"go/types"
	"strconv"
	"strings"

	"golang.org/x/tools/go/ssa"
)

const harnessPkg = "github.com/boz/kcache/zzverif"

type intrinsicFn func(in *Interp, g *G, fv *FuncV, args []Value) Value

var intrinsics map[string]intrinsicFn

func init() {
	intrinsics = map[string]intrinsicFn{
		// ---- builtins
		"builtin:len":     biLen,
		"builtin:cap":     biCap,
		"builtin:append":  biAppend,
		"builtin:copy":    biCopy,
		"builtin:delete":  biDelete,
		"builtin:print":   func(*Interp, *G, *FuncV, []Value) Value { return nil },
		"builtin:println": func(*Interp, *G, *FuncV, []Value) Value { return nil },
		"builtin:recover": func(*Interp, *G, *FuncV, []Value) Value { return IfaceV{} },

		// ---- harness API
		harnessPkg + ".NondetBool":      hNondetBool,
		harnessPkg + ".NondetInt":       hNondetInt,
		harnessPkg + ".NondetInt64":     hNondetInt64,
		harnessPkg + ".NondetString":    hNondetString,
		harnessPkg + ".Assume":          hAssume,
		harnessPkg + ".Assert":          hAssert,
		harnessPkg + ".Reach":           hReach,
		harnessPkg + ".UFBool":          hUFBool,
		harnessPkg + ".And":             hAnd,
		harnessPkg + ".Or":              hOr,
		harnessPkg + ".Not":             hNot,
		harnessPkg + ".Implies":         hImplies,
		harnessPkg + ".Iff":             hIff,
		harnessPkg + ".Param":           hParam,
		harnessPkg + ".Note":            hNote,
		harnessPkg + ".LiveLibGoroutines": hLiveLib,
		harnessPkg + ".AllowTimerFires": hAllowFires,
		harnessPkg + ".TimerFires":      hTimerFires,
		harnessPkg + ".Now":             func(in *Interp, g *G, fv *FuncV, a []Value) Value { return in.st.now },
		harnessPkg + ".Perturb":         func(in *Interp, g *G, fv *FuncV, a []Value) Value { return nil },
		harnessPkg + ".IsSymbolic":      func(in *Interp, g *G, fv *FuncV, a []Value) Value { return in.tc.True },
		harnessPkg + ".AtoiOK":          hAtoiOK,
		harnessPkg + ".AtoiVal":         hAtoiVal,

		// ---- std stubs
		"strconv.Atoi":       sAtoi,
		"strconv.Itoa":       sItoa,
		"strconv.ParseInt":   sParseInt(true),
		"strconv.ParseUint":  sParseInt(false),
		"errors.New":         sErrorsNew,
		"fmt.Errorf":         sErrorf,
		"fmt.Sprintf":        sSprintf,
		"fmt.Sprint":         sSprintf,
		"reflect.DeepEqual":  sDeepEqual,
		"sort.Slice":         sSortSlice,
		"sort.SliceStable":   sSortSlice,
		"sort.Strings":       sSortStrings,
		"context.Background": sCtxBackground,
		"context.TODO":       sCtxBackground,
		"context.WithCancel": sCtxWithCancel,
		"time.NewTimer":      sNewTimer,
		"time.AfterFunc":     sAfterFunc,
		"(*time.Timer).Stop":  sTimerStop,
		"(*time.Timer).Reset": sTimerReset,

		// ---- github.com/pkg/errors
		"github.com/pkg/errors.New":       sErrorsNew,
		"github.com/pkg/errors.Errorf":    sErrorf,
		"github.com/pkg/errors.Wrap":      sErrWrap,
		"github.com/pkg/errors.Wrapf":     sErrWrap,
		"github.com/pkg/errors.WithStack": sErrWithStack,
		"github.com/pkg/errors.Cause":     sErrCause,

		// ---- k8s helpers whose real code is reflection / validation
		"k8s.io/apimachinery/pkg/labels.NewRequirement": sNewRequirement,
		"k8s.io/apimachinery/pkg/api/meta.ExtractList":  sExtractList,
		"k8s.io/klog/v2.V": func(in *Interp, g *G, fv *FuncV, a []Value) Value {
			panic(unsupported("klog"))
		},
	}
}

// ---------------------------------------------------------------- builtins

func biLen(in *Interp, g *G, fv *FuncV, a []Value) Value {
	tc := in.tc
	switch x := a[0].(type) {
	case SliceV:
		return tc.BV(uint64(x.Len), 64)
	case MapV:
		if x.M == nil {
			return tc.BV(0, 64)
		}
		in.noteMapAccess(x.M, false)
		return tc.BV(uint64(x.M.N), 64)
	case *Term:
		if x.op == OpConstStr {
			return tc.BV(uint64(len(x.str)), 64)
		}
		panic(unsupported("len of symbolic string"))
	case ChanV:
		if x.C == nil {
			return tc.BV(0, 64)
		}
		return tc.BV(uint64(len(x.C.Buf)), 64)
	case *ArrayV:
		return tc.BV(uint64(len(x.Elems)), 64)
	case Ptr:
		return tc.BV(uint64(len(in.load(x).(*ArrayV).Elems)), 64)
	}
	panic(unsupported(fmt.Sprintf("len(%T)", a[0])))
}

func biCap(in *Interp, g *G, fv *FuncV, a []Value) Value {
	switch x := a[0].(type) {
	case SliceV:
		return in.tc.BV(uint64(x.Cap), 64)
	case ChanV:
		if x.C == nil {
			return in.tc.BV(0, 64)
		}
		return in.tc.BV(uint64(x.C.Cap), 64)
	}
	panic(unsupported("cap"))
}

func biAppend(in *Interp, g *G, fv *FuncV, a []Value) Value {
	s := a[0].(SliceV)
	var add []Value
	var et types.Type
	switch y := a[1].(type) {
	case SliceV:
		add = in.sliceElems(y)
		if y.Arr != nil {
			et = y.Arr.V.(*ArrayV).Elem
		}
	case *Term: // append([]byte, string...)
		if y.op != OpConstStr {
			panic(unsupported("append symbolic string"))
		}
		for i := 0; i < len(y.str); i++ {
			add = append(add, in.tc.BV(uint64(y.str[i]), 8))
		}
		et = types.Typ[types.Byte]
	}
	if s.Arr != nil {
		et = s.Arr.V.(*ArrayV).Elem
	}
	if len(add) == 0 {
		return s
	}
	return in.appendSlice(s, add, et)
}

func biCopy(in *Interp, g *G, fv *FuncV, a []Value) Value {
	dst := a[0].(SliceV)
	var src []Value
	switch y := a[1].(type) {
	case SliceV:
		src = in.sliceElems(y)
	default:
		panic(unsupported("copy from non-slice"))
	}
	n := len(src)
	if dst.Len < n {
		n = dst.Len
	}
	if n > 0 {
		arr := dst.Arr.V.(*ArrayV)
		na := &ArrayV{Elem: arr.Elem, Elems: append([]Value(nil), arr.Elems...)}
		for i := 0; i < n; i++ {
			na.Elems[dst.Off+i] = src[i]
		}
		for i := 0; i < n; i++ {
			in.noteAccessP(dst.Arr, []int{dst.Off + i}, true)
		}
		dst.Arr.V = na
	}
	return in.tc.BV(uint64(n), 64)
}

func biDelete(in *Interp, g *G, fv *FuncV, a []Value) Value {
	in.mapDelete(a[0].(MapV), a[1])
	return nil
}

func biMinMax(isMin bool) intrinsicFn {
	return func(in *Interp, g *G, fv *FuncV, a []Value) Value {
		panic(unsupported("min/max builtin"))
	}
}

// ---------------------------------------------------------------- harness API

func constStr(v Value) string {
	t, ok := v.(*Term)
	if !ok || t.op != OpConstStr {
		panic(unsupported("harness API needs a constant string argument"))
	}
	return t.str
}

func (in *Interp) freshName(tag string) string {
	k := in.st.nsyms[tag]
	in.st.nsyms[tag] = k + 1
	return fmt.Sprintf("%s#%d", tag, k)
}

func (in *Interp) newSym(tag string, s Sort, kind string) *Term {
	name := in.freshName(tag)
	t := in.tc.Var(name, s)
	in.syms = append(in.syms, SymInfo{Name: name, Kind: kind, T: t})
	return t
}

func hNondetBool(in *Interp, g *G, fv *FuncV, a []Value) Value {
	return in.newSym(constStr(a[0]), SBool, "bool")
}

func hNondetInt(in *Interp, g *G, fv *FuncV, a []Value) Value {
	tag := constStr(a[0])
	lo := in.concreteInt(a[1].(*Term))
	hi := in.concreteInt(a[2].(*Term))
	if hi < lo {
		panic(pathEndSig{"empty NondetInt range"})
	}
	name := in.freshName(tag)
	c := in.choose(hi-lo+1, "nondet", name)
	in.concretes = append(in.concretes, ConcInfo{Name: name, Val: lo + c})
	in.noteBound(tag, lo, hi)
	return in.tc.BV(uint64(int64(lo+c)), 64)
}

func hNondetInt64(in *Interp, g *G, fv *FuncV, a []Value) Value {
	return in.newSym(constStr(a[0]), Sort(64), "int")
}

func hNondetString(in *Interp, g *G, fv *FuncV, a []Value) Value {
	t := in.newSym(constStr(a[0]), SStr, "string")
	// the empty string is the least string (part of the path condition: solver-side
	// assertions would be lost on pop)
	in.st.pc = append(in.st.pc, in.tc.StrLe(in.tc.Str(""), t))
	return t
}

func hAssume(in *Interp, g *G, fv *FuncV, a []Value) Value {
	in.assume(a[0].(*Term))
	return nil
}

func hAssert(in *Interp, g *G, fv *FuncV, a []Value) Value {
	in.assertProp(a[0].(*Term), constStr(a[1]))
	return nil
}

func hReach(in *Interp, g *G, fv *FuncV, a []Value) Value {
	in.reach(constStr(a[0]))
	return nil
}

func (in *Interp) ifaceScalar(v Value) *Term {
	switch x := v.(type) {
	case IfaceV:
		if t, ok := x.V.(*Term); ok {
			return t
		}
	case *Term:
		return x
	}
	panic(unsupported(fmt.Sprintf("UF argument must be a scalar, got %s", in.show(v))))
}

func hUFBool(in *Interp, g *G, fv *FuncV, a []Value) Value {
	name := constStr(a[0])
	var args []*Term
	for _, e := range in.sliceElems(a[1].(SliceV)) {
		args = append(args, in.ifaceScalar(e))
	}
	return in.tc.UF("uf_"+name, SBool, args...)
}

func boolArgs(in *Interp, a []Value) []*Term {
	var out []*Term
	for _, e := range in.sliceElems(a[0].(SliceV)) {
		out = append(out, e.(*Term))
	}
	return out
}

func hAnd(in *Interp, g *G, fv *FuncV, a []Value) Value { return in.tc.And(boolArgs(in, a)...) }
func hOr(in *Interp, g *G, fv *FuncV, a []Value) Value  { return in.tc.Or(boolArgs(in, a)...) }
func hNot(in *Interp, g *G, fv *FuncV, a []Value) Value { return in.tc.Not(a[0].(*Term)) }
func hImplies(in *Interp, g *G, fv *FuncV, a []Value) Value {
	return in.tc.Implies(a[0].(*Term), a[1].(*Term))
}
func hIff(in *Interp, g *G, fv *FuncV, a []Value) Value {
	return in.tc.Eq(a[0].(*Term), a[1].(*Term))
}

func hParam(in *Interp, g *G, fv *FuncV, a []Value) Value {
	name := constStr(a[0])
	def := in.concreteInt(a[1].(*Term))
	if v, ok := in.cfg.Params[name]; ok {
		def = v
	}
	in.noteParam(name, def)
	return in.tc.BV(uint64(int64(def)), 64)
}

func hNote(in *Interp, g *G, fv *FuncV, a []Value) Value {
	if in.schedLog != nil {
		var ps []string
		for _, e := range in.sliceElems(a[1].(SliceV)) {
			if iv, ok := e.(IfaceV); ok {
				ps = append(ps, in.show(iv.V))
			} else {
				ps = append(ps, in.show(e))
			}
		}
		*in.schedLog = append(*in.schedLog, "note "+constStr(a[0])+" "+strings.Join(ps, " "))
	}
	return nil
}

func hLiveLib(in *Interp, g *G, fv *FuncV, a []Value) Value {
	return in.tc.BV(uint64(len(in.liveLibGoroutines())), 64)
}

func hAllowFires(in *Interp, g *G, fv *FuncV, a []Value) Value {
	in.cfg.fireBudget = in.st.fires + in.concreteInt(a[0].(*Term))
	return nil
}

func hTimerFires(in *Interp, g *G, fv *FuncV, a []Value) Value {
	return in.tc.BV(uint64(in.st.fires), 64)
}

// ---------------------------------------------------------------- strconv

func (in *Interp) atoiTerms(s *Term) (ok, val *Term) {
	tc := in.tc
	ok = tc.UF("atoi_ok", SBool, s)
	val = tc.UF("atoi_val", Sort(64), s)
	return
}

// every concrete string that meets Atoi gets its real result as an axiom so
// that a symbolic string equal to it behaves consistently.
func (in *Interp) atoiAxiom(s string) {
	if in.atoiSeen[s] {
		return
	}
	in.atoiSeen[s] = true
	tc := in.tc
	okT, valT := in.atoiTerms(tc.Str(s))
	n, err := strconv.Atoi(s)
	var ax []*Term
	if err != nil {
		ax = []*Term{tc.Not(okT)}
	} else {
		ax = []*Term{okT, tc.Eq(valT, tc.BV(uint64(int64(n)), 64))}
	}
	in.axioms = append(in.axioms, ax...)
	in.st.pc = append(in.st.pc, ax...)
}

func sAtoi(in *Interp, g *G, fv *FuncV, a []Value) Value {
	tc := in.tc
	s := a[0].(*Term)
	mkErr := func() Value {
		return IfaceV{T: in.errType, V: in.newErr("strconv.Atoi: invalid syntax", nil)}
	}
	if s.op == OpConstStr {
		in.atoiAxiom(s.str)
		n, err := strconv.Atoi(s.str)
		if err != nil {
			return TupleV{tc.BV(0, 64), mkErr()}
		}
		return TupleV{tc.BV(uint64(int64(n)), 64), IfaceV{}}
	}
	in.atoiAxiom("")
	okT, valT := in.atoiTerms(s)
	if in.branch(okT) {
		return TupleV{valT, IfaceV{}}
	}
	return TupleV{tc.BV(0, 64), mkErr()}
}

func hAtoiOK(in *Interp, g *G, fv *FuncV, a []Value) Value {
	s := a[0].(*Term)
	if s.op == OpConstStr {
		in.atoiAxiom(s.str)
		_, err := strconv.Atoi(s.str)
		return in.tc.Bool(err == nil)
	}
	in.atoiAxiom("")
	ok, _ := in.atoiTerms(s)
	return ok
}

func hAtoiVal(in *Interp, g *G, fv *FuncV, a []Value) Value {
	s := a[0].(*Term)
	if s.op == OpConstStr {
		in.atoiAxiom(s.str)
		n, _ := strconv.Atoi(s.str)
		return in.tc.BV(uint64(int64(n)), 64)
	}
	in.atoiAxiom("")
	_, v := in.atoiTerms(s)
	return v
}

// ParseInt / ParseUint (base 10 or 0, any bit size <= 64 taken as 64): the same
// uninterpreted parser as Atoi; ParseUint additionally rejects negative values.
func sParseInt(signed bool) intrinsicFn {
	return func(in *Interp, g *G, fv *FuncV, a []Value) Value {
		tc := in.tc
		s := a[0].(*Term)
		base := a[1].(*Term)
		if base.op != OpConstBV || (base.bv != 10 && base.bv != 0) {
			panic(unsupported("strconv.ParseInt with a base other than 10"))
		}
		mkErr := func() Value { return IfaceV{T: in.errType, V: in.newErr("strconv.ParseInt: invalid syntax", nil)} }
		if s.op == OpConstStr {
			in.atoiAxiom(s.str)
			if signed {
				n, err := strconv.ParseInt(s.str, 10, 64)
				if err != nil {
					return TupleV{tc.BV(0, 64), mkErr()}
				}
				return TupleV{tc.BV(uint64(n), 64), IfaceV{}}
			}
			n, err := strconv.ParseUint(s.str, 10, 64)
			if err != nil {
				return TupleV{tc.BV(0, 64), mkErr()}
			}
			return TupleV{tc.BV(n, 64), IfaceV{}}
		}
		in.atoiAxiom("")
		okT, valT := in.atoiTerms(s)
		if !signed {
			okT = tc.And(okT, tc.BVCmp(OpBVSle, tc.BV(0, 64), valT))
		}
		if in.branch(okT) {
			return TupleV{valT, IfaceV{}}
		}
		return TupleV{tc.BV(0, 64), mkErr()}
	}
}

func sItoa(in *Interp, g *G, fv *FuncV, a []Value) Value {
	t := a[0].(*Term)
	if t.op != OpConstBV {
		panic(unsupported("Itoa of symbolic int"))
	}
	return in.tc.Str(strconv.Itoa(int(sext(t.bv, t.sort))))
}

// ---------------------------------------------------------------- errors

func (in *Interp) newErr(msg string, cause *IfaceV) *ErrObj {
	in.st.nextID++
	return &ErrObj{id: in.st.nextID, Msg: msg, Cause: cause}
}

func (in *Interp) errIface(e *ErrObj) IfaceV { return IfaceV{T: in.errType, V: e} }

func (in *Interp) errMethod(e *ErrObj, name string, args []Value) Value {
	switch name {
	case "Error":
		return in.tc.Str(e.Msg)
	case "Cause", "Unwrap":
		if e.Cause == nil {
			return IfaceV{}
		}
		return *e.Cause
	}
	panic(unsupported("error method " + name))
}

func fmtArg(in *Interp, v Value) string {
	if iv, ok := v.(IfaceV); ok {
		if iv.T == nil {
			return "<nil>"
		}
		if e, ok := iv.V.(*ErrObj); ok {
			return e.Msg
		}
		return in.show(iv.V)
	}
	return in.show(v)
}

func sErrorsNew(in *Interp, g *G, fv *FuncV, a []Value) Value {
	msg := "?"
	if t, ok := a[0].(*Term); ok && t.op == OpConstStr {
		msg = t.str
	}
	return in.errIface(in.newErr(msg, nil))
}

func sErrorf(in *Interp, g *G, fv *FuncV, a []Value) Value {
	msg := "?"
	if t, ok := a[0].(*Term); ok && t.op == OpConstStr {
		msg = t.str
	}
	var cause *IfaceV
	if len(a) > 1 {
		for _, e := range in.sliceElems(a[1].(SliceV)) {
			if iv, ok := e.(IfaceV); ok {
				if _, isE := iv.V.(*ErrObj); isE {
					c := iv
					cause = &c
				}
			}
		}
	}
	return in.errIface(in.newErr(msg, cause))
}

func sSprintf(in *Interp, g *G, fv *FuncV, a []Value) Value {
	msg := "<fmt>"
	if t, ok := a[0].(*Term); ok && t.op == OpConstStr {
		msg = t.str
	}
	return in.tc.Str(msg)
}

func sErrWrap(in *Interp, g *G, fv *FuncV, a []Value) Value {
	e := a[0].(IfaceV)
	if e.T == nil {
		return IfaceV{}
	}
	msg := "wrap"
	if t, ok := a[1].(*Term); ok && t.op == OpConstStr {
		msg = t.str
	}
	return in.errIface(in.newErr(msg+": "+fmtArg(in, e), &e))
}

func sErrWithStack(in *Interp, g *G, fv *FuncV, a []Value) Value {
	e := a[0].(IfaceV)
	if e.T == nil {
		return IfaceV{}
	}
	return in.errIface(in.newErr(fmtArg(in, e), &e))
}

func sErrCause(in *Interp, g *G, fv *FuncV, a []Value) Value {
	e := a[0].(IfaceV)
	for e.T != nil {
		eo, ok := e.V.(*ErrObj)
		if !ok || eo.Cause == nil {
			break
		}
		e = *eo.Cause
	}
	return e
}

// ---------------------------------------------------------------- reflect.DeepEqual

func sDeepEqual(in *Interp, g *G, fv *FuncV, a []Value) Value {
	x, y := a[0].(IfaceV), a[1].(IfaceV)
	if x.T == nil || y.T == nil {
		return in.tc.Bool(x.T == nil && y.T == nil)
	}
	if !types.Identical(x.T, y.T) {
		return in.tc.False
	}
	return in.deepEq(x.V, y.V, x.T, 0)
}

func (in *Interp) deepEq(a, b Value, t types.Type, depth int) *Term {
	tc := in.tc
	if depth > 20 {
		panic(unsupported("DeepEqual recursion"))
	}
	switch u := t.Underlying().(type) {
	case *types.Basic:
		return in.equal(a, b)
	case *types.Pointer:
		pa, pb := a.(Ptr), b.(Ptr)
		if pa.Base == nil || pb.Base == nil {
			return tc.Bool(pa.Base == nil && pb.Base == nil)
		}
		if ptrEq(pa, pb) {
			return tc.True
		}
		return in.deepEq(in.load(pa), in.load(pb), u.Elem(), depth+1)
	case *types.Struct:
		sa, sb := a.(*StructV), b.(*StructV)
		var cs []*Term
		for i := 0; i < u.NumFields(); i++ {
			c := in.deepEq(in.field(sa, i), in.field(sb, i), u.Field(i).Type(), depth+1)
			if c.IsFalse() {
				return c
			}
			cs = append(cs, c)
		}
		return tc.And(cs...)
	case *types.Array:
		aa, ab := a.(*ArrayV), b.(*ArrayV)
		var cs []*Term
		for i := range aa.Elems {
			cs = append(cs, in.deepEq(in.elem(aa, i), in.elem(ab, i), u.Elem(), depth+1))
		}
		return tc.And(cs...)
	case *types.Slice:
		sa, sb := a.(SliceV), b.(SliceV)
		if (sa.Arr == nil) != (sb.Arr == nil) {
			return tc.False
		}
		if sa.Len != sb.Len {
			return tc.False
		}
		if sa.Arr == sb.Arr && sa.Off == sb.Off {
			return tc.True
		}
		ea, eb := in.sliceElems(sa), in.sliceElems(sb)
		var cs []*Term
		for i := range ea {
			c := in.deepEq(ea[i], eb[i], u.Elem(), depth+1)
			if c.IsFalse() {
				return c
			}
			cs = append(cs, c)
		}
		return tc.And(cs...)
	case *types.Map:
		ma, mb := a.(MapV), b.(MapV)
		if (ma.M == nil) != (mb.M == nil) {
			return tc.False
		}
		if ma.M == nil || ma.M == mb.M {
			return tc.True
		}
		if ma.M.N != mb.M.N {
			return tc.False
		}
		var cs []*Term
		for _, e := range ma.M.Entries {
			if e.Deleted {
				continue
			}
			f := in.mapFind(mb.M, e.K)
			if f == nil {
				return tc.False
			}
			c := in.deepEq(e.V, f.V, u.Elem(), depth+1)
			if c.IsFalse() {
				return c
			}
			cs = append(cs, c)
		}
		return tc.And(cs...)
	case *types.Interface:
		ia, ib := a.(IfaceV), b.(IfaceV)
		if ia.T == nil || ib.T == nil {
			return tc.Bool(ia.T == nil && ib.T == nil)
		}
		if !types.Identical(ia.T, ib.T) {
			return tc.False
		}
		return in.deepEq(ia.V, ib.V, ia.T, depth+1)
	case *types.Signature:
		fa, fb := a.(*FuncV), b.(*FuncV)
		return tc.Bool(fa == nil && fb == nil)
	case *types.Chan:
		return in.equal(a, b)
	}
	panic(unsupported("DeepEqual on " + t.String()))
}

// ---------------------------------------------------------------- sort

// insertion sort, exactly the small-slice path of the standard library (n <= 12)
func sSortSlice(in *Interp, g *G, fv *FuncV, a []Value) Value {
	s := a[0].(IfaceV).V.(SliceV)
	less := a[1].(*FuncV)
	if s.Len > 12 {
		panic(unsupported("sort.Slice of more than 12 elements"))
	}
	tc := in.tc
	for i := 1; i < s.Len; i++ {
		for j := i; j > 0; j-- {
			r := in.callSync(g, less, []Value{tc.BV(uint64(j), 64), tc.BV(uint64(j-1), 64)}).(*Term)
			if !in.branch(r) {
				break
			}
			arr := s.Arr.V.(*ArrayV)
			na := &ArrayV{Elem: arr.Elem, Elems: append([]Value(nil), arr.Elems...)}
			na.Elems[s.Off+j], na.Elems[s.Off+j-1] = in.elem(arr, s.Off+j-1), in.elem(arr, s.Off+j)
			s.Arr.V = na
		}
	}
	return nil
}

func sSortStrings(in *Interp, g *G, fv *FuncV, a []Value) Value {
	s := a[0].(SliceV)
	if s.Len > 12 {
		panic(unsupported("sort.Strings of more than 12 elements"))
	}
	for i := 1; i < s.Len; i++ {
		for j := i; j > 0; j-- {
			arr := s.Arr.V.(*ArrayV)
			x, y := in.elem(arr, s.Off+j).(*Term), in.elem(arr, s.Off+j-1).(*Term)
			if !in.branch(in.tc.StrLt(x, y)) {
				break
			}
			na := &ArrayV{Elem: arr.Elem, Elems: append([]Value(nil), arr.Elems...)}
			na.Elems[s.Off+j], na.Elems[s.Off+j-1] = y, x
			s.Arr.V = na
		}
	}
	return nil
}

// ---------------------------------------------------------------- context

func (in *Interp) newCtx(parent *CtxObj, cancelable bool) *CtxObj {
	in.st.nextID++
	c := &CtxObj{id: in.st.nextID, Parent: parent}
	if cancelable {
		c.Done = in.newChan(0, types.NewStruct(nil, nil), "ctx.Done")
	} else if parent != nil {
		c.Done = parent.Done
	}
	if parent != nil {
		parent.Children = append(parent.Children, c)
		if parent.Err != nil {
			c.Err = parent.Err
			if cancelable {
				c.Done.Closed = true
			}
		}
	}
	return c
}

func (in *Interp) ctxIface(c *CtxObj) IfaceV { return IfaceV{T: in.ctxType, V: c} }

func (in *Interp) canceledErr() *IfaceV {
	e := in.sentinel("context.Canceled", "context canceled")
	iv := in.errIface(e)
	return &iv
}

func (in *Interp) sentinel(name, msg string) *ErrObj {
	if e, ok := in.st.errs[name]; ok {
		return e
	}
	e := in.newErr(msg, nil)
	e.Name = name
	in.st.errs[name] = e
	return e
}

func (in *Interp) cancelCtx(c *CtxObj, err *IfaceV) {
	if c.Err != nil {
		return
	}
	c.Err = err
	if c.Done != nil && !c.Done.Closed {
		c.Done.Closed = true
		c.Done.closeVC = append([]int(nil), in.cancelVC...)
	}
	for _, ch := range c.Children {
		in.cancelCtx(ch, err)
	}
}

func sCtxBackground(in *Interp, g *G, fv *FuncV, a []Value) Value {
	if in.st.bgCtx == nil {
		in.st.bgCtx = in.newCtx(nil, false)
	}
	return in.ctxIface(in.st.bgCtx)
}

func sCtxWithCancel(in *Interp, g *G, fv *FuncV, a []Value) Value {
	p := a[0].(IfaceV)
	if p.T == nil {
		panic(goPanic("cannot create context from nil parent"))
	}
	po, ok := p.V.(*CtxObj)
	if !ok {
		panic(unsupported("context.WithCancel on a user-defined context"))
	}
	c := in.newCtx(po, true)
	return TupleV{in.ctxIface(c), &FuncV{Intrinsic: "ctx.cancel", Data: c}}
}

func (in *Interp) ctxMethod(c *CtxObj, name string, args []Value) Value {
	switch name {
	case "Done":
		return ChanV{c.Done}
	case "Err":
		if c.Err == nil {
			return IfaceV{}
		}
		return *c.Err
	case "Value":
		for x := c; x != nil; x = x.Parent {
			if x.vkey != nil && in.equal(x.vkey, args[0]).IsTrue() {
				return x.vval
			}
		}
		return IfaceV{}
	}
	panic(unsupported("context method " + name))
}

// ---------------------------------------------------------------- timers

func (in *Interp) newTimer(d *Term, fn *FuncV) (*TimerObj, *Cell) {
	in.st.nextID++
	t := &TimerObj{id: in.st.nextID, Armed: true, Fn: fn}
	t.deadline = in.tc.BVBin(OpBVAdd, in.st.now, in.durationOf(d))
	if in.cur != nil {
		t.armVC = append([]int(nil), in.cur.vc...)
	}
	if fn == nil {
		t.C = in.newChan(1, in.timeType, "timer.C")
	}
	st := in.timerStruct
	sv := &StructV{T: st, F: make([]Value, st.NumFields())}
	for i := 0; i < st.NumFields(); i++ {
		if st.Field(i).Name() == "C" {
			sv.F[i] = ChanV{t.C}
		}
	}
	cell := in.newCell(in.timerNamed, sv, "timer")
	cell.timer = t
	t.cell = cell
	in.st.timers = append(in.st.timers, t)
	return t, cell
}

func sNewTimer(in *Interp, g *G, fv *FuncV, a []Value) Value {
	_, cell := in.newTimer(a[0].(*Term), nil)
	return Ptr{Base: cell}
}

func sAfterFunc(in *Interp, g *G, fv *FuncV, a []Value) Value {
	_, cell := in.newTimer(a[0].(*Term), a[1].(*FuncV))
	return Ptr{Base: cell}
}

func timerOf(v Value) *TimerObj {
	p := v.(Ptr)
	if p.Base == nil || p.Base.timer == nil {
		panic(goPanic("time: Stop/Reset called on uninitialized Timer"))
	}
	return p.Base.timer
}

func sTimerStop(in *Interp, g *G, fv *FuncV, a []Value) Value {
	t := timerOf(a[0])
	was := t.Armed
	t.Armed = false
	return in.tc.Bool(was)
}

func sTimerReset(in *Interp, g *G, fv *FuncV, a []Value) Value {
	t := timerOf(a[0])
	was := t.Armed
	t.Armed = true
	t.deadline = in.tc.BVBin(OpBVAdd, in.st.now, in.durationOf(a[1].(*Term)))
	if in.cur != nil {
		t.armVC = append([]int(nil), in.cur.vc...)
	}
	return in.tc.Bool(was)
}

// durationOf: logical time (a symbolic BV64) advances only when timers fire.
func (in *Interp) durationOf(d *Term) *Term { return d }

func (in *Interp) fireTimer(t *TimerObj) {
	t.Armed = false
	in.st.now = in.tc.Ite(in.tc.BVCmp(OpBVSlt, in.st.now, t.deadline), t.deadline, in.st.now)
	t.Fires++
	in.st.fires++
	if t.Fn != nil && t.Fn.Intrinsic == "ctx.deadline" {
		e := in.sentinel("context.DeadlineExceeded", "context deadline exceeded")
		iv := in.errIface(e)
		in.cancelVC = append([]int(nil), t.armVC...)
		in.cancelCtx(t.Fn.Data.(*CtxObj), &iv)
		return
	}
	if t.Fn != nil {
		ng := in.newG(nil, t.Fn, nil, "time.AfterFunc")
		ng.name = fmt.Sprintf("timer%d.%d", t.id, t.Fires)
		ng.lib = true
		ng.vc = joinVC(ng.vc, t.armVC)
		return
	}
	if len(t.C.Buf) < t.C.Cap { // non-blocking send (legacy timer-channel semantics)
		t.C.Buf = append(t.C.Buf, in.zero(in.timeType))
		t.C.BufVC = append(t.C.BufVC, append([]int(nil), t.armVC...))
	}
}

// ---------------------------------------------------------------- k8s helpers

func sNewRequirement(in *Interp, g *G, fv *FuncV, a []Value) Value {
	key := a[0]
	op := a[1].(*Term)
	vals := a[2].(SliceV)
	if op.op != OpConstStr {
		panic(unsupported("symbolic selection operator"))
	}
	bad := false
	switch op.str {
	case "in", "notin":
		bad = vals.Len == 0
	case "=", "==", "!=":
		bad = vals.Len != 1
	case "exists", "!":
		bad = vals.Len != 0
	default:
		panic(unsupported("labels.NewRequirement operator " + op.str))
	}
	rt := fv.Fn.Signature.Results().At(0).Type().(*types.Pointer).Elem()
	st := rt.Underlying().(*types.Struct)
	sv := &StructV{T: st, F: make([]Value, st.NumFields())}
	for i := 0; i < st.NumFields(); i++ {
		switch st.Field(i).Name() {
		case "key":
			sv.F[i] = key
		case "operator":
			sv.F[i] = op
		case "strValues":
			sv.F[i] = vals
		}
	}
	cell := in.newCell(rt, sv, "labels.Requirement")
	if bad {
		return TupleV{Ptr{Base: cell}, in.errIface(in.newErr("labels.NewRequirement: invalid value count for operator", nil))}
	}
	return TupleV{Ptr{Base: cell}, IfaceV{}}
}

// meta.ExtractList for typed API lists: the addresses of the elements of the
// Items field, as runtime.Objects.
func sExtractList(in *Interp, g *G, fv *FuncV, a []Value) Value {
	obj := a[0].(IfaceV)
	resT := fv.Fn.Signature.Results().At(0).Type()
	fail := func(msg string) Value {
		return TupleV{in.zero(resT), in.errIface(in.newErr("meta.ExtractList: "+msg, nil))}
	}
	if obj.T == nil {
		return fail("nil object")
	}
	pt, ok := obj.T.Underlying().(*types.Pointer)
	if !ok {
		return fail("expected pointer, but got " + obj.T.String())
	}
	st, ok := pt.Elem().Underlying().(*types.Struct)
	if !ok {
		return fail("expected pointer to struct")
	}
	p := obj.V.(Ptr)
	if p.Base == nil {
		return fail("expected pointer, but got nil")
	}
	idx := -1
	for i := 0; i < st.NumFields(); i++ {
		if st.Field(i).Name() == "Items" {
			idx = i
		}
	}
	if idx < 0 {
		return fail("no Items field in " + pt.Elem().String())
	}
	slT, ok := st.Field(idx).Type().Underlying().(*types.Slice)
	if !ok {
		return fail("Items field must be a slice of objects")
	}
	items := in.load(subPath(p, idx)).(SliceV)
	roT := resT.Underlying().(*types.Slice).Elem()
	roI := roT.Underlying().(*types.Interface)
	out := make([]Value, items.Len)
	ept := types.NewPointer(slT.Elem())
	for i := 0; i < items.Len; i++ {
		switch {
		case in.implements(ept, roI):
			out[i] = IfaceV{T: ept, V: Ptr{Base: items.Arr, Path: []int{items.Off + i}}}
		default:
			if _, isI := slT.Elem().Underlying().(*types.Interface); isI {
				iv := in.sliceElems(items)[i].(IfaceV)
				if iv.T == nil || !in.implements(iv.T, roI) {
					return fail("item is not a runtime.Object")
				}
				out[i] = iv
				continue
			}
			return fail("item is not a runtime.Object")
		}
	}
	arr := &ArrayV{Elem: roT, Elems: out}
	cell := in.newCell(types.NewArray(roT, int64(len(out))), arr, "ExtractList")
	return TupleV{SliceV{Arr: cell, Len: len(out), Cap: len(out)}, IfaceV{}}
}

var _ = ssa.Function{}
