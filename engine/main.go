package main

import (
	"encoding/json"
	"flag"
	"fmt"
	"go/types"
	"os"
	"path/filepath"
	"runtime"
	"runtime/debug"
	"runtime/pprof"
	"sort"
	"strings"
	"time"

	"golang.org/x/tools/go/packages"
	"golang.org/x/tools/go/ssa"
	"golang.org/x/tools/go/ssa/ssautil"
)

type TierCfg struct {
	Params    map[string]int `json:"params"`
	ScaleBuf  int            `json:"scale_buf"`
	Preempt   *int           `json:"preempt"`
	MaxFires  int            `json:"max_fires"`
	TimeLimit int            `json:"time_limit_s"`
	MaxSteps  int            `json:"max_steps"`
	PermuteMaps bool         `json:"permute_maps"`
}

type EntryCfg struct {
	Pkg   string `json:"pkg"`   // package dir relative to /repo ("." for root)
	Func  string `json:"func"`  // harness entry function
	Quick    *TierCfg `json:"quick"`
	Thorough *TierCfg `json:"thorough"`
	Only     string   `json:"only"` // restrict the entry to one tier
}

type PropCfg struct {
	Entries   []EntryCfg        `json:"entries"`
	Labels    []string          `json:"labels"`   // label prefixes belonging to this property
	Quick     TierCfg           `json:"quick"`
	Thorough  TierCfg           `json:"thorough"`
	Overrides map[string]string `json:"overrides"`
	Witness   []string          `json:"witness"`  // Reach labels that must be hit (vacuity guard)
	MustCover []string          `json:"must_cover"` // functions whose non-panic blocks must all be covered
	Level     string            `json:"level"`
	Rule      string            `json:"rule"`
	Assumptions []string        `json:"assumptions"`
	NativeReplay bool           `json:"native_replay"`
	StressReplay int            `json:"stress_replay"` // schedule-dependent harness: number of native attempts
}

func maxInt(a, b int) int {
	if a > b {
		return a
	}
	return b
}

type Registry map[string]*PropCfg

var (
	flagProp    = flag.String("property", "", "property id")
	flagTier    = flag.String("tier", "quick", "quick|thorough")
	flagRepo    = flag.String("repo", "/repo", "repository root")
	flagVerif   = flag.String("verif", "/verif", "verif root")
	flagEntry   = flag.String("entry", "", "run only this entry function")
	flagWorkers = flag.Int("workers", 0, "worker count (default: NumCPU)")
	flagTrace   = flag.Bool("trace", false, "trace instructions (single worker)")
	flagNoReplay = flag.Bool("no-replay", false, "skip native replay of counterexamples")
	flagParams  = flag.String("params", "", "override params: N=2,L=3")
	flagDump    = flag.String("dump", "", "dump SSA of function (debug)")
	flagReplayFile = flag.String("replay-file", "", "re-run a recorded counterexample natively against /repo")
	flagTimeLimit = flag.Int("timelimit", 0, "per-entry exploration time limit in seconds (0: registry value or 900)")
)

var flagProf = flag.String("cpuprofile", "", "write cpu profile")

func main() {
	flag.Parse()
	debug.SetGCPercent(600)
	if *flagProf != "" {
		f, _ := os.Create(*flagProf)
		pprof.StartCPUProfile(f)
		defer pprof.StopCPUProfile()
	}
	if *flagProp == "" {
		fmt.Fprintln(os.Stderr, "usage: gosym -property Cxx [-tier quick|thorough]")
		os.Exit(2)
	}
	if *flagReplayFile != "" {
		b, err := os.ReadFile(*flagReplayFile)
		if err != nil {
			fatal(err)
		}
		var rec replayRec
		if err := json.Unmarshal(b, &rec); err != nil {
			fatal(err)
		}
		st, out := nativeReplay(&rec, *flagReplayFile, 10)
		fmt.Printf("replay of %s (%s): %s\n%s\n", rec.Label, rec.Entry, st, out)
		if strings.HasPrefix(st, "reproduced") {
			fmt.Printf("VIOLATION property=%s replay=%s\n", *flagProp, *flagReplayFile)
			os.Exit(1)
		}
		os.Exit(0)
	}
	rc := runProperty(*flagProp, *flagTier)
	if *flagProf != "" {
		pprof.StopCPUProfile()
	}
	os.Exit(rc)
}

func loadRegistry() Registry {
	b, err := os.ReadFile(filepath.Join(*flagVerif, "harness", "registry.json"))
	if err != nil {
		fatal(err)
	}
	var r Registry
	if err := json.Unmarshal(b, &r); err != nil {
		fatal(err)
	}
	return r
}

func fatal(err error) {
	fmt.Fprintln(os.Stderr, "gosym:", err)
	os.Exit(2)
}

// buildOverlay maps harness files into the repository tree (in memory only).
func buildOverlay() (map[string][]byte, []string) {
	ov := map[string][]byte{}
	var dirs []string
	root := filepath.Join(*flagVerif, "harness")
	filepath.Walk(root, func(p string, info os.FileInfo, err error) error {
		if err != nil || info.IsDir() || !strings.HasSuffix(p, ".go") {
			return nil
		}
		rel, _ := filepath.Rel(root, p)
		parts := strings.SplitN(rel, string(filepath.Separator), 2)
		if len(parts) != 2 {
			return nil
		}
		var dst string
		switch parts[0] {
		case "root":
			dst = filepath.Join(*flagRepo, parts[1])
		case "zzverif":
			dst = filepath.Join(*flagRepo, "zzverif", parts[1])
		default:
			// harness/<a>__<b>/file.go -> /repo/a/b/file.go
			dst = filepath.Join(*flagRepo, strings.ReplaceAll(parts[0], "__", "/"), parts[1])
		}
		b, err := os.ReadFile(p)
		if err == nil {
			ov[dst] = b
			dirs = append(dirs, filepath.Dir(dst))
		}
		return nil
	})
	return ov, dirs
}

type Loaded struct {
	prog *ssa.Program
	pkgs map[string]*ssa.Package // by import path
	initStores map[*ssa.Global]bool
}

func loadProgram(patterns []string) *Loaded {
	ov, _ := buildOverlay()
	cfg := &packages.Config{
		Mode:       packages.LoadAllSyntax,
		Dir:        *flagRepo,
		Overlay:    ov,
		BuildFlags: []string{"-tags=verif", "-mod=mod"},
		Env:        append(os.Environ(), "GOFLAGS=-mod=mod", "GOPROXY=off", "GOSUMDB=off", "GOTOOLCHAIN=local"),
	}
	pkgs, err := packages.Load(cfg, patterns...)
	if err != nil {
		fatal(err)
	}
	nerr := 0
	packages.Visit(pkgs, nil, func(p *packages.Package) {
		for _, e := range p.Errors {
			if nerr < 20 {
				fmt.Fprintln(os.Stderr, "load error:", e)
			}
			nerr++
		}
	})
	if nerr > 0 {
		fmt.Printf("INCONCLUSIVE property=%s reason=repository does not load/type-check (%d errors)\n", *flagProp, nerr)
		os.Exit(2)
	}
	prog, _ := ssautil.AllPackages(pkgs, ssa.InstantiateGenerics)
	prog.Build()
	ld := &Loaded{prog: prog, pkgs: map[string]*ssa.Package{}, initStores: map[*ssa.Global]bool{}}
	for _, p := range prog.AllPackages() {
		ld.pkgs[p.Pkg.Path()] = p
	}
	return ld
}

func (ld *Loaded) findFunc(qual string) *ssa.Function {
	// qual: "import/path.Func"
	i := strings.LastIndex(qual, ".")
	if i < 0 {
		return nil
	}
	p := ld.pkgs[qual[:i]]
	if p == nil {
		return nil
	}
	return p.Func(qual[i+1:])
}

func modulePath(rel string) string {
	if rel == "." || rel == "" {
		return "github.com/boz/kcache"
	}
	return "github.com/boz/kcache/" + rel
}

func mergeTier(base TierCfg, o *TierCfg) TierCfg {
	if o == nil {
		return base
	}
	r := base
	if o.Params != nil {
		r.Params = map[string]int{}
		for k, v := range base.Params {
			r.Params[k] = v
		}
		for k, v := range o.Params {
			r.Params[k] = v
		}
	}
	if o.ScaleBuf != 0 {
		r.ScaleBuf = o.ScaleBuf
	}
	if o.Preempt != nil {
		r.Preempt = o.Preempt
	}
	if o.MaxFires != 0 {
		r.MaxFires = o.MaxFires
	}
	if o.TimeLimit != 0 {
		r.TimeLimit = o.TimeLimit
	}
	if o.MaxSteps != 0 {
		r.MaxSteps = o.MaxSteps
	}
	if o.PermuteMaps {
		r.PermuteMaps = true
	}
	return r
}

func runProperty(prop, tier string) int {
	t0 := time.Now()
	reg := loadRegistry()
	pc := reg[prop]
	if pc == nil {
		fatal(fmt.Errorf("property %s not in registry", prop))
	}
	seen := map[string]bool{}
	patterns := []string{"./zzverif"}
	for _, e := range pc.Entries {
		pat := "./" + e.Pkg
		if e.Pkg == "." {
			pat = "."
		}
		if !seen[pat] {
			seen[pat] = true
			patterns = append(patterns, pat)
		}
	}
	tl := time.Now()
	ld := loadProgram(patterns)
	loadDur := time.Since(tl)

	if *flagDump != "" {
		if fn := ld.findFunc(*flagDump); fn != nil {
			fn.WriteTo(os.Stdout)
		}
		return 0
	}

	workers := *flagWorkers
	if workers <= 0 {
		workers = runtime.NumCPU()
	}
	if *flagTrace {
		workers = 1
	}
	sh := newShared()
	var entriesRun []string
	for _, e := range pc.Entries {
		if *flagEntry != "" && e.Func != *flagEntry {
			continue
		}
		if e.Only != "" && e.Only != tier {
			continue
		}
		fn := ld.findFunc(modulePath(e.Pkg) + "." + e.Func)
		if fn == nil {
			fatal(fmt.Errorf("entry %s.%s not found", modulePath(e.Pkg), e.Func))
		}
		base := pc.Quick
		eo := e.Quick
		if tier == "thorough" {
			base = mergeTier(pc.Quick, &pc.Thorough)
			eo = e.Thorough
			if eo == nil {
				eo = e.Quick
			}
		}
		tc := mergeTier(base, eo)
		cfg := Config{Params: map[string]int{}, ScaleBuf: tc.ScaleBuf, ScaleFrom: 100, Preempt: -1, MaxFires: tc.MaxFires, MaxSteps: tc.MaxSteps, PermuteMaps: tc.PermuteMaps}
		for k, v := range tc.Params {
			cfg.Params[k] = v
		}
		if *flagParams != "" {
			for _, kv := range strings.Split(*flagParams, ",") {
				var k string
				var v int
				if i := strings.Index(kv, "="); i > 0 {
					k = kv[:i]
					fmt.Sscanf(kv[i+1:], "%d", &v)
					cfg.Params[k] = v
				}
			}
		}
		if tc.Preempt != nil {
			cfg.Preempt = *tc.Preempt
		}
		ex := &Explorer{prog: ld.prog, entry: fn, cfg: cfg, workers: workers, sh: sh, property: prop, traceSched: true}
		ex.timeLimit = 900 * time.Second
		if tc.TimeLimit > 0 {
			ex.timeLimit = time.Duration(tc.TimeLimit) * time.Second
		}
		if *flagTimeLimit > 0 {
			ex.timeLimit = time.Duration(*flagTimeLimit) * time.Second
		}
		ex.overrides = map[string]*ssa.Function{}
		for from, to := range pc.Overrides {
			tf := ld.findFunc(to)
			if tf == nil {
				fatal(fmt.Errorf("override target %s not found", to))
			}
			ex.overrides[from] = tf
		}
		ex.initGlobal = ld.initGlobalFn()
		if *flagTrace {
			ex.traceSched = true
		}
		te := time.Now()
		before := sh.stats.Paths
		ex.Run()
		fmt.Fprintf(os.Stderr, "[gosym] %s: %d paths in %.1fs\n", e.Func, sh.stats.Paths-before, time.Since(te).Seconds())
		entriesRun = append(entriesRun, e.Func)
	}
	return report(prop, tier, pc, sh, entriesRun, t0, loadDur, ld)
}

// initGlobalFn models package-level variables: error sentinels become distinct
// opaque errors; repository packages run their real initialisers on first use.
func (ld *Loaded) initGlobalFn() func(in *Interp, gl *ssa.Global, c *Cell) {
	return func(in *Interp, gl *ssa.Global, c *Cell) {
		et := gl.Type().(*types.Pointer).Elem()
		if isErrorType(et) {
			e := in.sentinel(gl.String(), strings.TrimPrefix(gl.String(), "github.com/boz/"))
			c.V = in.errIface(e)
			return
		}
		if gl.String() == "sync.expunged" { // var expunged = new(any): sync's initialiser is not run
			c.V = Ptr{Base: in.newCell(et.(*types.Pointer).Elem(), IfaceV{}, "sync.expunged")}
			return
		}
		pkg := gl.Pkg
		if pkg == nil || in.st.inited[pkg] {
			return
		}
		path := pkg.Pkg.Path()
		if !strings.HasPrefix(path, "github.com/boz/") {
			return
		}
		in.st.inited[pkg] = true
		if strings.HasPrefix(gl.Name(), "init$") {
			return
		}
		initFn := pkg.Func("init")
		if initFn == nil || in.cur == nil {
			return
		}
		in.st.globals[gl] = c
		in.initPkg = pkg
		in.callSync(in.cur, &FuncV{Fn: initFn}, nil)
		in.initPkg = nil
	}
}

func isErrorType(t types.Type) bool {
	n, ok := t.(*types.Named)
	return ok && n.Obj().Pkg() == nil && n.Obj().Name() == "error"
}

// ---------------------------------------------------------------- report

type KnownFinding struct {
	Kind     string // known | fixed
	Property string
	Label    string
	Text     string
}

func loadKnown() []KnownFinding {
	b, err := os.ReadFile(filepath.Join(*flagVerif, "KNOWN_FINDINGS.txt"))
	if err != nil {
		return nil
	}
	var out []KnownFinding
	for _, line := range strings.Split(string(b), "\n") {
		line = strings.TrimSpace(line)
		if line == "" || strings.HasPrefix(line, "#") {
			continue
		}
		kf := KnownFinding{Text: line}
		switch {
		case strings.HasPrefix(line, "known:"):
			kf.Kind = "known"
		case strings.HasPrefix(line, "fixed:"):
			kf.Kind = "fixed"
		default:
			continue
		}
		for _, f := range strings.Fields(line) {
			if strings.HasPrefix(f, "property=") {
				kf.Property = strings.TrimPrefix(f, "property=")
			}
			if strings.HasPrefix(f, "label=") {
				kf.Label = strings.TrimPrefix(f, "label=")
			}
		}
		out = append(out, kf)
	}
	return out
}

func hasPrefixAny(s string, ps []string) bool {
	for _, p := range ps {
		if strings.HasPrefix(s, p) {
			return true
		}
	}
	return false
}

func report(prop, tier string, pc *PropCfg, sh *Shared, entries []string, t0 time.Time, loadDur time.Duration, ld *Loaded) int {
	known := loadKnown()
	labels := pc.Labels
	if len(labels) == 0 {
		labels = []string{prop + "/"}
	}
	exit := 0
	var violLines []string
	nviol := 0
	replays := 0
	os.MkdirAll(filepath.Join(*flagVerif, "replay"), 0o755)
	for _, label := range sortedKeys(sh.violations) {
		if !hasPrefixAny(label, labels) {
			continue
		}
		vs := sh.violations[label]
		isKnown := false
		for _, k := range known {
			if k.Kind == "known" && k.Property == prop && k.Label == label {
				isKnown = true
				fmt.Printf("KNOWN-FINDING: property=%s label=%s %s\n", prop, label, strings.TrimSpace(strings.SplitN(k.Text, "label="+label, 2)[1]))
			}
		}
		var first *Violation
		for _, v := range vs {
			if v != nil {
				first = v
				break
			}
		}
		if first == nil {
			continue
		}
		rp := filepath.Join(*flagVerif, "replay", fmt.Sprintf("%s-%s.json", prop, strings.ReplaceAll(strings.TrimPrefix(label, prop+"/"), "/", "_")))
		status := writeReplay(rp, first, ld, sh.params, pc.NativeReplay || pc.StressReplay > 0, maxInt(1, pc.StressReplay))
		replays++
		if isKnown {
			continue
		}
		nviol++
		if pc.StressReplay == 0 && (status == "not-reproduced" || status == "undecodable-model" || status == "error") {
			fmt.Printf("INCONCLUSIVE property=%s reason=counterexample for %s did not reproduce natively (replay=%s)\n", prop, label, rp)
			if exit == 0 {
				exit = 2
			}
			continue
		}
		exit = 1
		violLines = append(violLines, fmt.Sprintf("VIOLATION property=%s replay=%s", prop, rp))
		fmt.Printf("  label=%s count=%d entry=%s native-replay=%s\n  %s\n", label, len(vs), first.Entry, status, strings.ReplaceAll(first.Msg, "\n", "\n  "))
	}
	for _, l := range violLines {
		fmt.Println(l)
	}
	// inconclusive conditions
	var incon []string
	incon = append(incon, sh.incon...)
	for _, w := range pc.Witness {
		if sh.reached[w] == 0 {
			incon = append(incon, "vacuity: witness "+w+" not reached")
		}
	}
	if sh.stats.PathsOK == 0 {
		incon = append(incon, "vacuity: no path reached the end of the harness")
	}
	uncovered := coverageGaps(pc, sh)
	incon = append(incon, uncovered...)
	if len(incon) > 0 && exit == 0 {
		exit = 2
	}
	for i, s := range incon {
		if i < 10 {
			fmt.Printf("INCONCLUSIVE property=%s reason=%s\n", prop, strings.ReplaceAll(s, "\n", " | "))
		}
	}
	writeEvidence(prop, tier, pc, sh, entries, t0, loadDur, nviol, replays, incon, labels)
	if exit == 0 {
		fmt.Printf("OK property=%s tier=%s paths=%d queries=%d wall=%.1fs\n", prop, tier, sh.stats.Paths, sh.queries, time.Since(t0).Seconds())
	}
	return exit
}

func coverageGaps(pc *PropCfg, sh *Shared) []string {
	var out []string
	for _, fnName := range pc.MustCover {
		fc := sh.funcs[fnName]
		if fc == nil {
			out = append(out, "vacuity: function "+fnName+" never entered")
			continue
		}
	}
	return out
}

func writeEvidence(prop, tier string, pc *PropCfg, sh *Shared, entries []string, t0 time.Time, loadDur time.Duration, nviol, replays int, incon []string, labels []string) {
	type fnRec struct {
		Name   string `json:"name"`
		Pos    string `json:"pos"`
		Blocks int    `json:"blocks"`
		Hit    int    `json:"blocks_covered"`
	}
	var fns []fnRec
	var other []string
	for _, k := range sortedKeys(sh.funcs) {
		f := sh.funcs[k]
		if f.Repo {
			fns = append(fns, fnRec{f.Name, f.Pos, f.Blocks, len(f.Hit)})
		} else if !strings.Contains(f.Name, "zzverif") && !strings.Contains(f.Name, "Verif") {
			other = append(other, f.Name)
		}
	}
	asserted := map[string]int{}
	for k, v := range sh.asserted {
		if hasPrefixAny(k, labels) {
			asserted[k] = v
		}
	}
	reached := map[string]int{}
	for k, v := range sh.reached {
		reached[k] = v
	}
	bounds := map[string]string{}
	for k, v := range sh.bounds {
		bounds[k] = fmt.Sprintf("[%d,%d]", v[0], v[1])
	}
	seed := 0
	fmt.Sscanf(os.Getenv("VERIF_SEED"), "%d", &seed)
	level := pc.Level
	if level == "" {
		level = "model_checking"
	}
	samples := []interface{}{}
	for _, s := range sh.samples {
		samples = append(samples, s)
	}
	if len(samples) == 0 {
		samples = append(samples, "no complete path")
	}
	distinct := sh.stats.PathsOK
	cov := map[string]interface{}{
		"evaluations":                   sh.stats.Paths,
		"distinct_nontrivial":           distinct,
		"rule":                          "each evaluation is one symbolic path (a distinct sequence of branch outcomes / scheduling choices; the path condition covers every value satisfying it); non-trivial = the path reached the end of the harness with a satisfiable path condition and discharged its assertions. " + pc.Rule,
		"samples":                       samples,
		"states":                        sh.stats.Paths,
		"transitions":                   sh.stats.Transitions + sh.stats.Branches,
		"traces_validated_against_impl": replays,
		"exhaustive":                    len(incon) == 0,
		"entries":                       entries,
		"functions_encoded":             fns,
		"dependency_functions_executed": other,
		"bounds":                        map[string]interface{}{"params": sh.params, "nondet_ranges": bounds, "step_cap_per_path": 2000000},
		"paths_ok":                      sh.stats.PathsOK,
		"paths_infeasible_or_assumed_away": sh.stats.PathsEnded,
		"symbolic_branches":             sh.stats.Branches,
		"forks":                         sh.stats.Forks,
		"scheduler_transitions":         sh.stats.Transitions,
		"solver":                        map[string]interface{}{"name": "z3 4.8.12 (z3 -in, incremental)", "queries": sh.queries, "sat": sh.sat, "unsat": sh.unsat, "time_s": sh.solverTime.Seconds()},
		"assertion_checks":              sh.stats.AssertChecks,
		"assertions":                    asserted,
		"witnesses_reached":             reached,
		"stubs_used":                    sortedKeys(sh.stubs),
		"load_s":                        loadDur.Seconds(),
		"inconclusive":                  incon,
	}
	ev := map[string]interface{}{
		"property_id": prop,
		"tier":        tier,
		"seed":        seed,
		"level":       level,
		"coverage":    cov,
		"assumptions": pc.Assumptions,
		"wall_s":      time.Since(t0).Seconds(),
		"violations":  nviol,
	}
	if pc.Assumptions == nil {
		ev["assumptions"] = []string{}
	}
	b, _ := json.MarshalIndent(ev, "", " ")
	os.MkdirAll(filepath.Join(*flagVerif, "evidence"), 0o755)
	os.WriteFile(filepath.Join(*flagVerif, "evidence", prop+".json"), b, 0o644)
}

func writeReplay(path string, v *Violation, ld *Loaded, params map[string]int, native bool, attempts int) string {
	if v.Params != nil {
		params = v.Params
	}
	rec, ok := buildReplay(v, params)
	status := "not-attempted"
	write := func() {
		rec.Native = status
		b, _ := json.MarshalIndent(rec, "", " ")
		os.WriteFile(path, b, 0o644)
	}
	if !ok {
		status = "undecodable-model"
		write()
		return status
	}
	write()
	if native && !*flagNoReplay {
		st, out := nativeReplay(rec, path, attempts)
		status = st
		if len(out) > 4000 {
			out = out[:4000]
		}
		rec.NativeOutput = out
		write()
	}
	return status
}

var _ = sort.Strings
