package main

import (
	"fmt"
	"go/token"
	"go/types"
	"math"

	"golang.org/x/tools/go/ssa"
)

func (in *Interp) binop(op token.Token, a, b Value, ta, tb types.Type) Value {
	tc := in.tc
	switch op {
	case token.EQL:
		return in.equal(a, b)
	case token.NEQ:
		return tc.Not(in.equal(a, b))
	}
	switch x := a.(type) {
	case FloatV:
		y := b.(FloatV)
		switch op {
		case token.ADD:
			return FloatV{x.F + y.F}
		case token.SUB:
			return FloatV{x.F - y.F}
		case token.MUL:
			return FloatV{x.F * y.F}
		case token.QUO:
			return FloatV{x.F / y.F}
		case token.LSS:
			return tc.Bool(x.F < y.F)
		case token.LEQ:
			return tc.Bool(x.F <= y.F)
		case token.GTR:
			return tc.Bool(x.F > y.F)
		case token.GEQ:
			return tc.Bool(x.F >= y.F)
		}
	case *Term:
		y := b.(*Term)
		switch {
		case x.sort == SStr:
			switch op {
			case token.ADD:
				if x.op == OpConstStr && y.op == OpConstStr {
					return tc.Str(x.str + y.str)
				}
				panic(unsupported("concatenation of symbolic strings"))
			case token.LSS:
				return tc.StrLt(x, y)
			case token.LEQ:
				return tc.StrLe(x, y)
			case token.GTR:
				return tc.StrLt(y, x)
			case token.GEQ:
				return tc.StrLe(y, x)
			}
		case x.sort == SBool:
			// only == and != are defined on bools (handled above)
		default:
			signed := isSigned(ta)
			switch op {
			case token.ADD:
				return tc.BVBin(OpBVAdd, x, y)
			case token.SUB:
				return tc.BVBin(OpBVSub, x, y)
			case token.MUL:
				return tc.BVBin(OpBVMul, x, y)
			case token.QUO, token.REM:
				if y.op == OpConstBV {
					if y.bv == 0 {
						panic(goPanic("integer divide by zero"))
					}
				} else if in.branch(tc.Eq(y, tc.BV(0, int(y.sort)))) {
					panic(goPanic("integer divide by zero"))
				}
				if op == token.QUO {
					if signed {
						return tc.BVBin(OpBVSdiv, x, y)
					}
					return tc.BVBin(OpBVUdiv, x, y)
				}
				if signed {
					return tc.BVBin(OpBVSrem, x, y)
				}
				return tc.BVBin(OpBVUrem, x, y)
			case token.AND:
				return tc.BVBin(OpBVAnd, x, y)
			case token.OR:
				return tc.BVBin(OpBVOr, x, y)
			case token.XOR:
				return tc.BVBin(OpBVXor, x, y)
			case token.AND_NOT:
				return tc.BVBin(OpBVAnd, x, tc.BVNot(y))
			case token.SHL, token.SHR:
				// shift count may have a different width; negative signed counts panic in Go
				if isSigned(tb) {
					if y.op == OpConstBV {
						if sext(y.bv, y.sort) < 0 {
							panic(goPanic("negative shift amount"))
						}
					} else if in.branch(tc.BVCmp(OpBVSlt, y, tc.BV(0, int(y.sort)))) {
						panic(goPanic("negative shift amount"))
					}
				}
				var yy *Term
				if int(y.sort) > int(x.sort) {
					// saturate
					big := tc.BVCmp(OpBVUle, tc.BV(uint64(int(x.sort)), int(y.sort)), y)
					yy = tc.Ite(big, tc.BV(uint64(int(x.sort)), int(x.sort)), tc.Resize(y, int(x.sort), false))
				} else {
					yy = tc.Resize(y, int(x.sort), false)
				}
				if op == token.SHL {
					return tc.BVBin(OpBVShl, x, yy)
				}
				if signed {
					return tc.BVBin(OpBVAshr, x, yy)
				}
				return tc.BVBin(OpBVLshr, x, yy)
			case token.LSS:
				if signed {
					return tc.BVCmp(OpBVSlt, x, y)
				}
				return tc.BVCmp(OpBVUlt, x, y)
			case token.LEQ:
				if signed {
					return tc.BVCmp(OpBVSle, x, y)
				}
				return tc.BVCmp(OpBVUle, x, y)
			case token.GTR:
				if signed {
					return tc.BVCmp(OpBVSlt, y, x)
				}
				return tc.BVCmp(OpBVUlt, y, x)
			case token.GEQ:
				if signed {
					return tc.BVCmp(OpBVSle, y, x)
				}
				return tc.BVCmp(OpBVUle, y, x)
			}
		}
	}
	panic(unsupported(fmt.Sprintf("binop %s on %T", op, a)))
}

func (in *Interp) unop(x *ssa.UnOp, v Value) Value {
	tc := in.tc
	switch x.Op {
	case token.MUL: // load
		return in.load(v.(Ptr))
	case token.NOT:
		return tc.Not(v.(*Term))
	case token.SUB:
		switch a := v.(type) {
		case *Term:
			return tc.BVNeg(a)
		case FloatV:
			return FloatV{-a.F}
		}
	case token.XOR:
		return tc.BVNot(v.(*Term))
	}
	panic(unsupported("unop " + x.Op.String()))
}

func (in *Interp) convert(v Value, from, to types.Type) Value {
	tc := in.tc
	fu, tu := from.Underlying(), to.Underlying()
	fb, fok := fu.(*types.Basic)
	tb, tok := tu.(*types.Basic)
	if fok && tok {
		switch {
		case fb.Info()&types.IsInteger != 0 && tb.Info()&types.IsInteger != 0:
			return tc.Resize(v.(*Term), intWidth(tb), fb.Info()&types.IsUnsigned == 0)
		case fb.Info()&types.IsString != 0 && tb.Info()&types.IsString != 0:
			return v
		case fb.Info()&types.IsInteger != 0 && tb.Info()&types.IsFloat != 0:
			t := v.(*Term)
			if t.op != OpConstBV {
				panic(unsupported("symbolic int -> float conversion"))
			}
			if fb.Info()&types.IsUnsigned != 0 {
				return FloatV{float64(t.bv)}
			}
			return FloatV{float64(sext(t.bv, t.sort))}
		case fb.Info()&types.IsFloat != 0 && tb.Info()&types.IsFloat != 0:
			f := v.(FloatV)
			if tb.Kind() == types.Float32 {
				return FloatV{float64(float32(f.F))}
			}
			return f
		case fb.Info()&types.IsFloat != 0 && tb.Info()&types.IsInteger != 0:
			f := v.(FloatV).F
			if math.IsNaN(f) || math.IsInf(f, 0) {
				return tc.BV(0, intWidth(tb))
			}
			return tc.BV(uint64(int64(f)), intWidth(tb))
		case fb.Info()&types.IsInteger != 0 && tb.Info()&types.IsString != 0:
			t := v.(*Term)
			if t.op != OpConstBV {
				panic(unsupported("symbolic int -> string conversion"))
			}
			return tc.Str(string(rune(sext(t.bv, t.sort))))
		case fb.Kind() == types.UnsafePointer || tb.Kind() == types.UnsafePointer:
			panic(unsupported("unsafe pointer conversion"))
		}
	}
	// string <-> []byte
	if fok && fb.Info()&types.IsString != 0 {
		if sl, ok := tu.(*types.Slice); ok {
			t := v.(*Term)
			if t.op != OpConstStr {
				if eb, ok := sl.Elem().Underlying().(*types.Basic); ok && eb.Kind() == types.Byte {
					// the bytes of a symbolic string: opaque, only consumable by the hash models
					return SymBytesV{S: t}
				}
				panic(unsupported("symbolic string -> slice conversion"))
			}
			if eb, ok := sl.Elem().Underlying().(*types.Basic); ok && eb.Kind() == types.Byte {
				arr := &ArrayV{Elem: sl.Elem(), Elems: make([]Value, len(t.str))}
				for i := 0; i < len(t.str); i++ {
					arr.Elems[i] = tc.BV(uint64(t.str[i]), 8)
				}
				c := in.newCell(types.NewArray(sl.Elem(), int64(len(t.str))), arr, "bytes")
				return SliceV{Arr: c, Len: len(t.str), Cap: len(t.str)}
			}
		}
	}
	if tok && tb.Info()&types.IsString != 0 {
		if s, ok := v.(SliceV); ok {
			bs := make([]byte, s.Len)
			if s.Arr != nil {
				arr := s.Arr.V.(*ArrayV)
				for i := 0; i < s.Len; i++ {
					e := in.elem(arr, s.Off+i).(*Term)
					if e.op != OpConstBV {
						panic(unsupported("symbolic bytes -> string"))
					}
					bs[i] = byte(e.bv)
				}
			}
			return tc.Str(string(bs))
		}
	}
	// pointer/other representation-preserving conversions
	if _, ok := fu.(*types.Pointer); ok {
		return v
	}
	if types.Identical(fu, tu) {
		return v
	}
	panic(unsupported(fmt.Sprintf("convert %s -> %s", from, to)))
}

// concreteInt returns a concrete int for t, case-splitting small symbolic values.
func (in *Interp) concreteInt(t *Term) int {
	if t.op == OpConstBV {
		return int(sext(t.bv, t.sort))
	}
	for i := 0; i < 8; i++ {
		if in.branch(in.tc.Eq(t, in.tc.BV(uint64(i), int(t.sort)))) {
			return i
		}
	}
	panic(unsupported("symbolic integer used where a small concrete value is required"))
}

func (in *Interp) strIndex(s *Term, i int) Value {
	if s.op != OpConstStr {
		panic(unsupported("index of symbolic string"))
	}
	if i < 0 || i >= len(s.str) {
		panic(goPanic("string index out of range"))
	}
	return in.tc.BV(uint64(s.str[i]), 8)
}

// ---------------------------------------------------------------- maps

// keyMatch decides (forking if necessary) whether k equals the entry key.
func (in *Interp) keyMatch(k, ek Value) bool {
	eq := in.equal(k, ek)
	if eq.IsConst() {
		return eq.IsTrue()
	}
	return in.branch(eq)
}

func (in *Interp) mapFind(m *MapObj, k Value) *MapEntry {
	if m == nil {
		return nil
	}
	for _, e := range m.Entries {
		if e.Deleted {
			continue
		}
		if in.keyMatch(k, e.K) {
			return e
		}
	}
	return nil
}

func (in *Interp) lookup(x *ssa.Lookup, mv, k Value) Value {
	if s, ok := mv.(*Term); ok { // string index
		return in.strIndex(s, in.concreteInt(k.(*Term)))
	}
	m := mv.(MapV)
	mt := x.X.Type().Underlying().(*types.Map)
	in.checkHashable(k)
	in.noteMapAccess(m.M, false)
	e := in.mapFind(m.M, k)
	var v Value
	if e != nil {
		v = e.V
	} else {
		v = in.zero(mt.Elem())
	}
	if x.CommaOk {
		return TupleV{v, in.tc.Bool(e != nil)}
	}
	return v
}

func (in *Interp) checkHashable(k Value) {
	if iv, ok := k.(IfaceV); ok && iv.T != nil && !types.Comparable(iv.T) {
		panic(goPanic("runtime error: hash of unhashable type " + iv.T.String()))
	}
}

func (in *Interp) mapUpdate(m MapV, k, v Value) {
	if m.M == nil {
		panic(goPanic("assignment to entry in nil map"))
	}
	in.checkHashable(k)
	in.noteMapAccess(m.M, true)
	if e := in.mapFind(m.M, k); e != nil {
		e.V = v
		return
	}
	m.M.Entries = append(m.M.Entries, &MapEntry{K: k, V: v})
	m.M.N++
}

func (in *Interp) mapDelete(m MapV, k Value) {
	if m.M == nil {
		return
	}
	in.noteMapAccess(m.M, true)
	if e := in.mapFind(m.M, k); e != nil {
		e.Deleted = true
		m.M.N--
	}
}

func (in *Interp) rangeIter(v Value) Value {
	switch x := v.(type) {
	case MapV:
		it := &MapIter{IsMap: true, M: x.M}
		in.noteMapAccess(x.M, false)
		if x.M != nil {
			for _, e := range x.M.Entries {
				if !e.Deleted {
					it.Order = append(it.Order, e)
				}
			}
			in.permuteIter(it)
		}
		return it
	case *Term:
		if x.op != OpConstStr {
			panic(unsupported("range over symbolic string"))
		}
		return &MapIter{Str: x}
	}
	panic(unsupported(fmt.Sprintf("range over %T", v)))
}

func (in *Interp) next(x *ssa.Next, it *MapIter) Value {
	tc := in.tc
	if x.IsString {
		s := it.Str.str
		if it.strPos >= len(s) {
			return TupleV{tc.False, tc.BV(0, 64), tc.BV(0, 32)}
		}
		r, sz := decodeRune(s[it.strPos:])
		res := TupleV{tc.True, tc.BV(uint64(it.strPos), 64), tc.BV(uint64(r), 32)}
		it.strPos += sz
		return res
	}
	tt := x.Type().(*types.Tuple)
	for it.Pos < len(it.Order) {
		e := it.Order[it.Pos]
		it.Pos++
		if e.Deleted {
			continue
		}
		return TupleV{tc.True, e.K, e.V}
	}
	var kz, vz Value
	if tt.At(1).Type() != nil {
		kz = in.zeroOrNil(tt.At(1).Type())
	}
	vz = in.zeroOrNil(tt.At(2).Type())
	return TupleV{tc.False, kz, vz}
}

func (in *Interp) zeroOrNil(t types.Type) Value {
	if b, ok := t.(*types.Basic); ok && b.Kind() == types.Invalid {
		return nil
	}
	return in.zero(t)
}

func decodeRune(s string) (rune, int) {
	for i, r := range s {
		_ = i
		n := len(string(r))
		if r == 0xFFFD {
			n = 1
		}
		return r, n
	}
	return 0, 0
}

// ---------------------------------------------------------------- slices

func (in *Interp) sliceOp(fr *Frame, x *ssa.Slice) Value {
	geti := func(v ssa.Value, def int) int {
		if v == nil {
			return def
		}
		return in.concreteInt(in.get(fr, v).(*Term))
	}
	switch a := in.get(fr, x.X).(type) {
	case SliceV:
		lo := geti(x.Low, 0)
		hi := geti(x.High, a.Len)
		mx := geti(x.Max, a.Cap)
		if lo < 0 || hi < lo || mx < hi || mx > a.Cap {
			panic(goPanic("slice bounds out of range"))
		}
		if a.Arr == nil {
			return SliceV{}
		}
		return SliceV{Arr: a.Arr, Off: a.Off + lo, Len: hi - lo, Cap: mx - lo}
	case *Term:
		if a.op != OpConstStr {
			lo := geti(x.Low, 0)
			if lo == 0 && x.High == nil {
				return a
			}
			panic(unsupported("slice of symbolic string"))
		}
		lo := geti(x.Low, 0)
		hi := geti(x.High, len(a.str))
		if lo < 0 || hi < lo || hi > len(a.str) {
			panic(goPanic("slice bounds out of range"))
		}
		return in.tc.Str(a.str[lo:hi])
	case Ptr: // pointer to array
		arr := in.load(a).(*ArrayV)
		n := len(arr.Elems)
		lo := geti(x.Low, 0)
		hi := geti(x.High, n)
		mx := geti(x.Max, n)
		if lo < 0 || hi < lo || mx < hi || mx > n {
			panic(goPanic("slice bounds out of range"))
		}
		if len(a.Path) != 0 {
			panic(unsupported("slice of array embedded in aggregate"))
		}
		return SliceV{Arr: a.Base, Off: lo, Len: hi - lo, Cap: mx - lo}
	}
	panic(unsupported("slice op"))
}

func (in *Interp) sliceElems(s SliceV) []Value {
	out := make([]Value, s.Len)
	if s.Arr == nil {
		return out
	}
	arr := s.Arr.V.(*ArrayV)
	for i := 0; i < s.Len; i++ {
		in.noteAccessP(s.Arr, []int{s.Off + i}, false)
		out[i] = in.elem(arr, s.Off+i)
	}
	return out
}

func (in *Interp) makeSliceOf(et types.Type, elems []Value) SliceV {
	if len(elems) == 0 {
		return SliceV{}
	}
	arr := &ArrayV{Elem: et, Elems: append([]Value(nil), elems...)}
	c := in.newCell(types.NewArray(et, int64(len(elems))), arr, "slice")
	return SliceV{Arr: c, Len: len(elems), Cap: len(elems)}
}

func (in *Interp) appendSlice(s SliceV, add []Value, et types.Type) SliceV {
	if len(add) == 0 {
		return s
	}
	n := s.Len + len(add)
	if s.Arr != nil && n <= s.Cap {
		arr := s.Arr.V.(*ArrayV)
		na := &ArrayV{Elem: arr.Elem, Elems: append([]Value(nil), arr.Elems...)}
		for i, v := range add {
			na.Elems[s.Off+s.Len+i] = v
		}
		for i := range add {
			in.noteAccessP(s.Arr, []int{s.Off + s.Len + i}, true)
		}
		s.Arr.V = na
		return SliceV{Arr: s.Arr, Off: s.Off, Len: n, Cap: s.Cap}
	}
	nc := s.Cap * 2
	if nc < n {
		nc = n
	}
	elems := make([]Value, nc)
	copy(elems, in.sliceElems(s))
	copy(elems[s.Len:], add)
	c := in.newCell(types.NewArray(et, int64(nc)), &ArrayV{Elem: et, Elems: elems}, "append")
	return SliceV{Arr: c, Off: 0, Len: n, Cap: nc}
}

// ---------------------------------------------------------------- type assertions

func (in *Interp) implements(t types.Type, it *types.Interface) bool {
	return types.Implements(t, it)
}

func (in *Interp) typeAssert(x *ssa.TypeAssert, v IfaceV) Value {
	ok := false
	var res Value
	if v.T != nil {
		if it, isI := x.AssertedType.Underlying().(*types.Interface); isI {
			switch v.V.(type) {
			case *ErrObj:
				ok = true
				for i := 0; i < it.NumMethods(); i++ {
					switch it.Method(i).Name() {
					case "Error":
					case "Cause", "Unwrap":
						if v.V.(*ErrObj).Cause == nil {
							ok = false
						}
					default:
						ok = false
					}
				}
			case *CtxObj:
				ok = it.NumMethods() == 0 || isContextIface(it)
			default:
				ok = in.implements(v.T, it)
			}
			res = v
		} else {
			ok = types.Identical(v.T, x.AssertedType)
			res = v.V
		}
	}
	if !ok {
		if !x.CommaOk {
			panic(goPanic(fmt.Sprintf("interface conversion: %v is not %v", typeStr(v.T), x.AssertedType)))
		}
		return TupleV{in.zero(x.AssertedType), in.tc.False}
	}
	if x.CommaOk {
		return TupleV{res, in.tc.True}
	}
	return res
}

func typeStr(t types.Type) string {
	if t == nil {
		return "nil"
	}
	return t.String()
}

func isContextIface(it *types.Interface) bool {
	for i := 0; i < it.NumMethods(); i++ {
		switch it.Method(i).Name() {
		case "Done", "Err", "Value", "Deadline":
		default:
			return false
		}
	}
	return true
}

// ---------------------------------------------------------------- channels

func (in *Interp) newChan(n int, et types.Type, tag string) *Chan {
	in.st.nextID++
	return &Chan{id: in.st.nextID, Cap: n, Elem: et, tag: tag}
}

func (in *Interp) scaleChanCap(x *ssa.MakeChan, n int) int {
	if in.cfg.ScaleBuf > 0 {
		if c, ok := x.Size.(*ssa.Const); ok && c.Value != nil && n == in.cfg.ScaleFrom {
			in.noteStub(fmt.Sprintf("channel capacity %d scaled to %d at %s", n, in.cfg.ScaleBuf, in.posString(x.Pos())))
			return in.cfg.ScaleBuf
		}
	}
	return n
}
