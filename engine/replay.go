package main

// Turning a solver model into concrete inputs and replaying the same harness
// against the natively compiled code (go test -overlay).

import (
	"encoding/json"
	"fmt"
	"math/big"
	"os"
	"os/exec"
	"path/filepath"
	"sort"
	"strconv"
	"strings"
	"time"
)

type SymVal struct {
	Name string
	Kind string
	Val  *Term
}

type AppVal struct {
	Name string
	Args []*Term // constants (model values)
	Res  *Term
}

func ratOfSexp(x *sexp) *big.Rat {
	if !x.isL {
		r, ok := new(big.Rat).SetString(x.atom)
		if !ok {
			return nil
		}
		return r
	}
	if len(x.list) == 3 && x.list[0].atom == "/" {
		a, b := ratOfSexp(x.list[1]), ratOfSexp(x.list[2])
		if a == nil || b == nil || b.Sign() == 0 {
			return nil
		}
		return new(big.Rat).Quo(a, b)
	}
	if len(x.list) == 2 && x.list[0].atom == "-" {
		a := ratOfSexp(x.list[1])
		if a == nil {
			return nil
		}
		return new(big.Rat).Neg(a)
	}
	return nil
}

func ratOfStrConst(t *Term) *big.Rat {
	if strings.HasPrefix(t.str, "\x00rat:") {
		sx, err := parseSexp(t.str[5:])
		if err != nil {
			return nil
		}
		return ratOfSexp(sx)
	}
	// literal
	num := new(big.Int)
	den := big.NewInt(1)
	for i := 0; i < len(t.str); i++ {
		num.Mul(num, strBase)
		num.Add(num, big.NewInt(int64(t.str[i])+1))
		den.Mul(den, strBase)
	}
	return new(big.Rat).SetFrac(num, den)
}

// decodeStrings assigns a concrete Go string to every distinct string value of
// the model such that equalities, order (against each other and the literals)
// and Atoi facts are respected. Returns nil if no assignment was found.
func decodeStrings(v *Violation) map[string]string {
	type grp struct {
		r      *big.Rat
		lit    *string
		atoiOK *bool
		atoiV  int64
		out    string
		done   bool
	}
	groups := map[string]*grp{}
	get := func(t *Term) *grp {
		r := ratOfStrConst(t)
		if r == nil {
			return nil
		}
		k := r.RatString()
		g := groups[k]
		if g == nil {
			g = &grp{r: r}
			groups[k] = g
		}
		if !strings.HasPrefix(t.str, "\x00rat:") {
			s := t.str
			g.lit = &s
		}
		return g
	}
	for _, l := range v.Lits {
		get(&Term{op: OpConstStr, str: l})
	}
	get(&Term{op: OpConstStr, str: ""})
	for _, s := range v.SymVals {
		if s.Kind == "string" && s.Val != nil {
			if get(s.Val) == nil {
				return nil
			}
		}
	}
	for _, a := range v.Apps {
		for _, x := range a.Args {
			if x != nil && x.op == OpConstStr {
				get(x)
			}
		}
		if (a.Name == "atoi_ok" || a.Name == "atoi_val") && len(a.Args) == 1 && a.Args[0] != nil && a.Res != nil {
			g := get(a.Args[0])
			if g == nil {
				continue
			}
			if a.Name == "atoi_ok" {
				b := a.Res.IsTrue()
				g.atoiOK = &b
			} else {
				g.atoiV = sext(a.Res.bv, a.Res.sort)
			}
		}
	}
	var gs []*grp
	for _, g := range groups {
		gs = append(gs, g)
	}
	sort.Slice(gs, func(i, j int) bool { return gs[i].r.Cmp(gs[j].r) < 0 })
	used := map[string]bool{}
	for _, g := range gs {
		if g.lit != nil {
			g.out, g.done = *g.lit, true
			used[g.out] = true
		}
	}
	// numeric strings
	for _, g := range gs {
		if g.done || g.atoiOK == nil {
			continue
		}
		if *g.atoiOK {
			s := strconv.FormatInt(g.atoiV, 10)
			for used[s] {
				if strings.HasPrefix(s, "-") {
					s = "-0" + s[1:]
				} else {
					s = "0" + s
				}
			}
			g.out, g.done = s, true
			used[s] = true
		}
	}
	// the rest: place between neighbours in order
	n := 0
	for i, g := range gs {
		if g.done {
			continue
		}
		prev := ""
		for j := i - 1; j >= 0; j-- {
			if gs[j].done && (gs[j].atoiOK == nil || gs[j].lit != nil) {
				prev = gs[j].out
				break
			}
		}
		next := ""
		hasNext := false
		for j := i + 1; j < len(gs); j++ {
			if gs[j].lit != nil {
				next, hasNext = *gs[j].lit, true
				break
			}
		}
		ok := false
		for _, mid := range []string{"m", "z", "a", "0", "~", "!", "\x01"} {
			n++
			cand := prev + mid + "s" + strconv.Itoa(n)
			if g.atoiOK != nil && !*g.atoiOK {
				cand = prev + mid + "x" + strconv.Itoa(n)
			}
			if cand > prev && (!hasNext || cand < next) && !used[cand] {
				g.out, g.done, ok = cand, true, true
				used[cand] = true
				break
			}
		}
		if !ok {
			return nil
		}
	}
	res := map[string]string{}
	for k, g := range groups {
		res[k] = g.out
	}
	return res
}

func strOf(t *Term, dec map[string]string) (string, bool) {
	r := ratOfStrConst(t)
	if r == nil {
		return "", false
	}
	s, ok := dec[r.RatString()]
	return s, ok
}

func valText(t *Term, dec map[string]string) (string, bool) {
	if t == nil {
		return "", false
	}
	switch t.op {
	case OpConstBool:
		if t.bv == 1 {
			return "true", true
		}
		return "false", true
	case OpConstBV:
		return strconv.FormatInt(sext(t.bv, t.sort), 10), true
	case OpConstStr:
		return strOf(t, dec)
	}
	return "", false
}

type replayRec struct {
	Label    string            `json:"label"`
	Entry    string            `json:"entry"`
	Message  string            `json:"message"`
	Position string            `json:"position"`
	Values   map[string]string `json:"values"`
	UF       map[string]bool   `json:"uf"`
	Params   map[string]int    `json:"params"`
	Schedule []string          `json:"schedule,omitempty"`
	PC       []string          `json:"path_condition,omitempty"`
	Stack    string            `json:"stack,omitempty"`
	Native   string            `json:"native_replay"`
	NativeOutput string        `json:"native_output,omitempty"`
}

func buildReplay(v *Violation, params map[string]int) (*replayRec, bool) {
	rec := &replayRec{Label: v.Label, Entry: v.Entry, Message: v.Msg, Position: v.Pos,
		Values: map[string]string{}, UF: map[string]bool{}, Params: params, Schedule: v.Trace, PC: v.PC, Stack: v.Stacks}
	dec := decodeStrings(v)
	if dec == nil {
		return rec, false
	}
	ok := true
	for _, s := range v.SymVals {
		if s.Val == nil {
			// unconstrained symbol: any value
			switch s.Kind {
			case "bool":
				rec.Values[s.Name] = "false"
			case "int":
				rec.Values[s.Name] = "0"
			default:
				rec.Values[s.Name] = ""
			}
			continue
		}
		txt, good := valText(s.Val, dec)
		if !good {
			ok = false
		}
		rec.Values[s.Name] = txt
	}
	for _, c := range v.Concrete {
		rec.Values[c.Name] = strconv.Itoa(c.Val)
	}
	for _, a := range v.Apps {
		if !strings.HasPrefix(a.Name, "uf_") || a.Res == nil || a.Res.sort != SBool {
			continue
		}
		parts := []string{strings.TrimPrefix(a.Name, "uf_")}
		good := true
		for _, x := range a.Args {
			t, g := valText(x, dec)
			if !g {
				good = false
			}
			parts = append(parts, t)
		}
		if good {
			rec.UF[strings.Join(parts, "|")] = a.Res.IsTrue()
		}
	}
	return rec, ok
}

// nativeReplay compiles the harness against the real package and runs the entry
// with the recorded values. Returns "reproduced", "not-reproduced" or "error".
func nativeReplay(rec *replayRec, replayPath string, attempts int) (string, string) {
	// entry: import/path.Func
	i := strings.LastIndex(rec.Entry, ".")
	pkgPath, fn := rec.Entry[:i], rec.Entry[i+1:]
	rel := strings.TrimPrefix(strings.TrimPrefix(pkgPath, "github.com/boz/kcache"), "/")
	pkgDir := filepath.Join(*flagRepo, rel)
	pkgName := ""
	// find package name from an existing harness file of that package
	ov, _ := buildOverlay()
	for p, b := range ov {
		if filepath.Dir(p) == pkgDir {
			for _, line := range strings.Split(string(b), "\n") {
				if strings.HasPrefix(line, "package ") {
					pkgName = strings.TrimSpace(strings.TrimPrefix(line, "package "))
					break
				}
			}
		}
		if pkgName != "" {
			break
		}
	}
	if pkgName == "" {
		return "error", "cannot determine package name for " + pkgDir
	}
	tmp, err := os.MkdirTemp("", "gosym-replay-")
	if err != nil {
		return "error", err.Error()
	}
	defer os.RemoveAll(tmp)
	test := fmt.Sprintf(`//go:build verif

package %s

import (
	"fmt"
	"testing"

	"github.com/boz/kcache/zzverif"
)

func TestVerifReplay(t *testing.T) {
	failed, p := zzverif.RunReplay(%s)
	for _, f := range failed {
		fmt.Printf("REPLAY-FAILED %%s\n", f)
	}
	if p != nil {
		fmt.Printf("REPLAY-PANIC %%v\n", p)
	}
	fmt.Println("REPLAY-DONE")
}
`, pkgName, fn)
	repl := map[string]string{}
	for p, b := range ov {
		f := filepath.Join(tmp, strings.ReplaceAll(strings.TrimPrefix(p, "/"), "/", "__"))
		os.WriteFile(f, b, 0o644)
		repl[p] = f
	}
	tf := filepath.Join(tmp, "replay_test.go")
	os.WriteFile(tf, []byte(test), 0o644)
	repl[filepath.Join(pkgDir, "zz_verif_replay_test.go")] = tf
	ob, _ := json.Marshal(map[string]interface{}{"Replace": repl})
	of := filepath.Join(tmp, "overlay.json")
	os.WriteFile(of, ob, 0o644)
	bin := filepath.Join(tmp, "replay.test")
	env := append(os.Environ(), "VERIF_REPLAY="+replayPath, "GOFLAGS=-mod=mod", "GOPROXY=off", "GOSUMDB=off", "GOTOOLCHAIN=local")
	build := exec.Command("go", "test", "-c", "-tags=verif", "-mod=mod", "-vet=off", "-overlay", of, "-o", bin, pkgPath)
	build.Dir = *flagRepo
	build.Env = env
	if bout, berr := build.CombinedOutput(); berr != nil {
		return "error", "native build failed: " + string(bout)
	}
	want := rec.Label
	last := ""
	for i := 1; i <= attempts; i++ {
		cmd := exec.Command(bin, "-test.run", "^TestVerifReplay$", "-test.v", "-test.timeout", "60s")
		cmd.Dir = tmp
		cmd.Env = env
		done := make(chan struct{})
		var out []byte
		go func() {
			out, err = cmd.CombinedOutput()
			close(done)
		}()
		select {
		case <-done:
		case <-time.After(90 * time.Second):
			cmd.Process.Kill()
			<-done
		}
		txt := string(out)
		last = txt
		tag := fmt.Sprintf(" (attempt %d of %d)", i, attempts)
		switch {
		case strings.Contains(txt, "REPLAY-FAILED "+want+"\n"):
			return "reproduced" + tag, txt
		case (strings.Contains(rec.Label, "/crash")) && (strings.Contains(txt, "REPLAY-PANIC") || strings.Contains(txt, "panic:")):
			return "reproduced" + tag, txt
		case (strings.Contains(rec.Label, "/stuck")) && (strings.Contains(txt, "test timed out") || !strings.Contains(txt, "REPLAY-DONE")):
			return "reproduced" + tag, txt
		}
	}
	if strings.Contains(last, "REPLAY-DONE") {
		return "not-reproduced", last
	}
	return "error", last
}
