package main

import (
	"fmt"
	"go/token"
	"sort"
	"strings"

	"golang.org/x/tools/go/ssa"
)

// ---------------------------------------------------------------- decisions

type Decision struct {
	N      int    // number of alternatives (1 = forced / bookkeeping)
	Choice int    // alternative taken
	Dir    int8   // for forced symbolic branches: +1 true, -1 false
	Kind   string // "br", "sched", "nondet", "assume", "assert"
	Given  bool   // siblings handed to another worker
	Note   string
	Keep   []int  // state-cache filter applied at this scheduling point (indices kept); nil: none
	Filt   bool   // Keep is meaningful
}

// frozen copies a trace for another worker: the receiver must never backtrack
// above the decision it was handed.
func frozen(tr []Decision, last Decision) []Decision {
	np := make([]Decision, 0, len(tr)+1)
	for _, d := range tr {
		d.Given = true
		np = append(np, d)
	}
	return append(np, last)
}

func (in *Interp) replaying() bool { return len(in.trace) < len(in.prefix) }

// choose makes an n-way concrete choice.
func (in *Interp) choose(n int, kind, note string) int {
	return in.chooseK(n, kind, note, nil, false)
}

func (in *Interp) chooseK(n int, kind, note string, keep []int, filt bool) int {
	if n <= 0 {
		panic("choose(0)")
	}
	idx := len(in.trace)
	d := Decision{N: n, Kind: kind, Note: note, Keep: keep, Filt: filt}
	if idx < len(in.prefix) {
		p := in.prefix[idx]
		if p.Kind != kind || (p.N != n && !p.Given) {
			panic(fmt.Sprintf("replay divergence at decision %d: have %s/%d want %s/%d (%s)", idx, kind, n, p.Kind, p.N, note))
		}
		d.Choice = p.Choice
		d.Given = p.Given
		if p.Given {
			d.N = p.N
		}
	} else if n > 1 && in.share != nil && in.share(idx) {
		// hand siblings to other workers
		for alt := 1; alt < n; alt++ {
			in.give(frozen(in.trace, Decision{N: 1, Choice: alt, Kind: kind, Given: true, Keep: keep, Filt: filt}))
		}
		d.N = 1
		d.Given = true
	}
	in.trace = append(in.trace, d)
	return d.Choice
}

// branch decides a symbolic condition, forking when both sides are feasible.
func (in *Interp) branch(c *Term) bool {
	if c.IsConst() {
		return c.IsTrue()
	}
	idx := len(in.trace)
	if idx < len(in.prefix) {
		p := in.prefix[idx]
		if p.Kind != "br" {
			panic(fmt.Sprintf("replay divergence at decision %d: br vs %s", idx, p.Kind))
		}
		var dir bool
		if p.Dir != 0 {
			dir = p.Dir > 0
		} else {
			dir = p.Choice == 0
		}
		in.trace = append(in.trace, p)
		if p.Dir == 0 { // forced directions are implied by the path condition
			in.addPC(c, dir)
		}
		return dir
	}
	in.stats.Branches++
	// syntactic shortcut: the condition (or its negation) is already a conjunct of the path condition
	if in.known(c) {
		in.stats.Shortcuts++
		in.trace = append(in.trace, Decision{N: 1, Kind: "br", Dir: +1})
		return true
	}
	if in.known(in.tc.Not(c)) {
		in.stats.Shortcuts++
		in.trace = append(in.trace, Decision{N: 1, Kind: "br", Dir: -1})
		return false
	}
	rt := in.solver.Check(in.st.pc, c)
	if rt == Unknown {
		panic(inconclusive("solver unknown on branch feasibility"))
	}
	if rt == Unsat {
		in.trace = append(in.trace, Decision{N: 1, Kind: "br", Dir: -1})
		return false
	}
	rf := in.solver.Check(in.st.pc, in.tc.Not(c))
	if rf == Unknown {
		panic(inconclusive("solver unknown on branch feasibility"))
	}
	if rf == Unsat {
		in.trace = append(in.trace, Decision{N: 1, Kind: "br", Dir: +1})
		return true
	}
	in.stats.Forks++
	d := Decision{N: 2, Kind: "br"}
	if in.share != nil && in.share(idx) {
		in.give(frozen(in.trace, Decision{N: 1, Choice: 1, Kind: "br", Given: true}))
		d.N = 1
		d.Given = true
	}
	in.trace = append(in.trace, d)
	in.addPC(c, true)
	return true
}

func (in *Interp) addPC(c *Term, dir bool) {
	if !dir {
		c = in.tc.Not(c)
	}
	in.pushPC(c)
}

func (in *Interp) pushPC(c *Term) {
	in.st.pc = append(in.st.pc, c)
	in.learn(c)
}

// learn records the literal conjuncts implied by c for the syntactic shortcut.
func (in *Interp) learn(c *Term) {
	if in.st.facts == nil {
		in.st.facts = map[*Term]bool{}
	}
	in.st.facts[c] = true
	switch c.op {
	case OpAnd:
		for _, a := range c.args {
			in.learn(a)
		}
	case OpNot:
		if c.args[0].op == OpOr {
			for _, a := range c.args[0].args {
				in.learn(in.tc.Not(a))
			}
		}
	}
}

func (in *Interp) known(c *Term) bool {
	if in.st.facts[c] {
		return true
	}
	if c.op == OpAnd {
		for _, a := range c.args {
			if !in.known(a) {
				return false
			}
		}
		return true
	}
	if c.op == OpOr {
		for _, a := range c.args {
			if in.known(a) {
				return true
			}
		}
	}
	return false
}

// assume adds c to the path condition; ends the path when infeasible.
func (in *Interp) assume(c *Term) {
	if c.IsTrue() {
		return
	}
	if c.IsFalse() {
		panic(pathEndSig{"assume false"})
	}
	if in.replaying() {
		in.trace = append(in.trace, in.prefix[len(in.trace)])
		in.pushPC(c)
		return
	}
	if in.known(c) {
		in.trace = append(in.trace, Decision{N: 1, Kind: "assume"})
		return
	}
	r := in.solver.Check(in.st.pc, c)
	if r == Unknown {
		panic(inconclusive("solver unknown on assume"))
	}
	if r == Unsat {
		panic(pathEndSig{"assume infeasible"})
	}
	in.trace = append(in.trace, Decision{N: 1, Kind: "assume"})
	in.pushPC(c)
}

// ---------------------------------------------------------------- transitions

type TKind int

const (
	TSendBuf TKind = iota
	TSendClosed
	TRecvBuf
	TRecvClosed
	TRendezvous
	TDefault
	TClose
	TCancel
	TFire
	TQuiesce
	TYield
	TTimerOp
	TNow
	TCond
)

var tkindNames = [...]string{"send", "send-closed!", "recv", "recv-closed", "rendezvous", "default", "close", "cancel", "fire", "quiesce", "yield", "timer-op", "now", "cond"}

type Trans struct {
	kind  TKind
	g     *G
	ci    int // case index in g's select (-1: plain op)
	g2    *G  // receiver in a rendezvous
	ci2   int
	ch    *Chan
	timer *TimerObj
}

func (t Trans) String() string {
	s := tkindNames[t.kind]
	if t.g != nil {
		s += " " + t.g.name
	}
	if t.g2 != nil {
		s += "->" + t.g2.name
	}
	if t.ch != nil {
		s += fmt.Sprintf(" ch#%d(%s)", t.ch.id, t.ch.tag)
	}
	if t.timer != nil {
		s += fmt.Sprintf(" timer#%d", t.timer.id)
	}
	return s
}

type opRef struct {
	g    *G
	ci   int
	send bool
	ch   *Chan
	val  Value
}

func pendOps(g *G) []opRef {
	p := g.pend
	if p.ops != nil {
		return p.ops
	}
	switch p.kind {
	case PSend:
		p.ops = []opRef{{g, -1, true, p.ch, p.val}}
	case PRecv:
		p.ops = []opRef{{g, -1, false, p.ch, nil}}
	case PSelect:
		out := make([]opRef, 0, len(p.cases))
		for i, c := range p.cases {
			out = append(out, opRef{g, i, c.send, c.ch, c.val})
		}
		p.ops = out
	}
	return p.ops
}

func (in *Interp) enabled() []Trans {
	var ts []Trans
	var quiescers []*G
	// index of receivers waiting on unbuffered channels (kept on the channel, epoch-stamped)
	in.epoch++
	for _, g := range in.st.gs {
		if g.status != GPending {
			continue
		}
		for _, op := range pendOps(g) {
			if op.ch == nil || op.ch.Cap != 0 || op.send {
				continue
			}
			if op.ch.wEpoch != in.epoch {
				op.ch.wEpoch = in.epoch
				op.ch.recvW = op.ch.recvW[:0]
			}
			op.ch.recvW = append(op.ch.recvW, op)
		}
	}
	for _, g := range in.st.gs {
		if g.status != GPending {
			continue
		}
		switch g.pend.kind {
		case PClose:
			ts = append(ts, Trans{kind: TClose, g: g, ci: -1, ch: g.pend.ch})
			continue
		case PCancel:
			ts = append(ts, Trans{kind: TCancel, g: g, ci: -1})
			continue
		case PYield:
			ts = append(ts, Trans{kind: TYield, g: g, ci: -1})
			continue
		case PTimer:
			ts = append(ts, Trans{kind: TTimerOp, g: g, ci: -1, timer: g.pend.timer})
			continue
		case PNow:
			ts = append(ts, Trans{kind: TNow, g: g, ci: -1})
			continue
		case PCond:
			if g.pend.cond() {
				ts = append(ts, Trans{kind: TCond, g: g, ci: -1})
			}
			continue
		case PQuiesce:
			quiescers = append(quiescers, g)
			continue
		}
		direct := false
		for _, op := range pendOps(g) {
			if op.ch == nil {
				continue
			}
			if op.send {
				switch {
				case op.ch.Closed:
					ts = append(ts, Trans{kind: TSendClosed, g: g, ci: op.ci, ch: op.ch})
					direct = true
				case len(op.ch.Buf) < op.ch.Cap:
					ts = append(ts, Trans{kind: TSendBuf, g: g, ci: op.ci, ch: op.ch})
					direct = true
				case op.ch.Cap == 0:
					if op.ch.wEpoch != in.epoch {
						break
					}
					for _, op2 := range op.ch.recvW {
						if op2.g != g {
							ts = append(ts, Trans{kind: TRendezvous, g: g, ci: op.ci, g2: op2.g, ci2: op2.ci, ch: op.ch})
						}
					}
				}
			} else {
				switch {
				case len(op.ch.Buf) > 0:
					ts = append(ts, Trans{kind: TRecvBuf, g: g, ci: op.ci, ch: op.ch})
					direct = true
				case op.ch.Closed:
					ts = append(ts, Trans{kind: TRecvClosed, g: g, ci: op.ci, ch: op.ch})
					direct = true
				}
			}
		}
		if g.pend.kind == PSelect && g.pend.hasDefault && !direct {
			// default is taken when no case is ready; a rendez-vous partner that is
			// "ready" only because local steps run first may equally be late
			ts = append(ts, Trans{kind: TDefault, g: g, ci: -1})
		}
	}
	if in.st.fires < in.cfg.maxFires() {
		for _, t := range in.st.timers {
			if t.Armed {
				ts = append(ts, Trans{kind: TFire, timer: t, ci: -1})
			}
		}
	}
	if len(ts) == 0 && len(quiescers) > 0 {
		ts = append(ts, Trans{kind: TQuiesce, g: quiescers[0], ci: -1})
	}
	return ts
}

func (in *Interp) complete(g *G, ci int, v Value, ok bool, isSend bool) {
	p := g.pend
	g.pend = nil
	g.status = GRunnable
	switch p.kind {
	case PSend:
		p.done()
	case PRecv:
		p.recv(v, ok)
	case PSelect:
		if isSend {
			p.selected(ci, nil, false)
		} else {
			p.selected(ci, v, ok)
		}
	default:
		p.done()
	}
}

func sendVal(g *G, ci int) Value {
	if ci < 0 {
		return g.pend.val
	}
	return g.pend.cases[ci].val
}

func (in *Interp) fire(t Trans) {
	in.stats.Transitions++
	if in.schedLog != nil {
		*in.schedLog = append(*in.schedLog, t.String()+" @"+in.posOf(t))
	}
	switch t.kind {
	case TSendBuf:
		v := sendVal(t.g, t.ci)
		t.ch.Buf = append(t.ch.Buf, v)
		if k := t.ch.Sends - t.ch.Cap; k >= 0 && k < len(t.ch.RecvVC) {
			t.g.vc = joinVC(t.g.vc, t.ch.RecvVC[k])
		}
		t.ch.Sends++
		t.ch.BufVC = append(t.ch.BufVC, append([]int(nil), t.g.vc...))
		in.tick(t.g)
		in.complete(t.g, t.ci, nil, false, true)
	case TSendClosed:
		panic(goPanic("send on closed channel"))
	case TRecvBuf:
		v := t.ch.Buf[0]
		t.ch.Buf = append([]Value(nil), t.ch.Buf[1:]...)
		if len(t.ch.BufVC) > 0 {
			t.g.vc = joinVC(t.g.vc, t.ch.BufVC[0])
			t.ch.BufVC = append([][]int(nil), t.ch.BufVC[1:]...)
		}
		t.ch.RecvVC = append(t.ch.RecvVC, append([]int(nil), t.g.vc...))
		in.tick(t.g)
		in.complete(t.g, t.ci, v, true, false)
	case TRecvClosed:
		t.g.vc = joinVC(t.g.vc, t.ch.closeVC)
		in.complete(t.g, t.ci, nil, false, false)
	case TRendezvous:
		v := sendVal(t.g, t.ci)
		j := joinVC(append([]int(nil), t.g.vc...), t.g2.vc)
		t.g.vc = append([]int(nil), j...)
		t.g2.vc = append([]int(nil), j...)
		in.tick(t.g)
		in.tick(t.g2)
		in.complete(t.g, t.ci, nil, false, true)
		in.complete(t.g2, t.ci2, v, true, false)
	case TDefault:
		p := t.g.pend
		t.g.pend = nil
		t.g.status = GRunnable
		p.selected(-1, nil, false)
	case TClose:
		p := t.g.pend
		if p.ch == nil {
			panic(goPanic("close of nil channel"))
		}
		if p.ch.Closed {
			panic(goPanic("close of closed channel"))
		}
		p.ch.Closed = true
		p.ch.closeVC = append([]int(nil), t.g.vc...)
		in.tick(t.g)
		in.complete(t.g, -1, nil, false, false)
	case TCancel:
		p := t.g.pend
		in.cancelVC = append([]int(nil), t.g.vc...)
		in.cancelCtx(p.ctx, in.canceledErr())
		in.tick(t.g)
		in.complete(t.g, -1, nil, false, false)
	case TYield, TTimerOp, TNow, TCond:
		in.cur = t.g
		in.complete(t.g, -1, nil, false, false)
	case TQuiesce:
		for _, o := range in.st.gs {
			if o != t.g {
				t.g.vc = joinVC(t.g.vc, o.vc)
			}
		}
		in.complete(t.g, -1, nil, false, false)
	case TFire:
		in.fireTimer(t.timer)
	}
}

func (in *Interp) posOf(t Trans) string {
	if t.g != nil && t.g.pend != nil {
		return in.posString(t.g.pend.pos)
	}
	return ""
}

// ---------------------------------------------------------------- one path

type inconclusiveSig struct{ msg string }

func inconclusive(msg string) inconclusiveSig { return inconclusiveSig{msg} }

type PathOutcome struct {
	Kind   string // "ok", "end", "crash", "unsupported", "inconclusive", "deadlock", "livelock"
	Msg    string
	Pos    string
	Stacks string
}

func (in *Interp) runLocal(g *G) {
	for g.status == GRunnable {
		in.cur = g
		if in.stepInstr(g) {
			break
		}
	}
}

// runPath executes the harness entry once, following in.prefix and extending it.
func (in *Interp) runPath(entry *ssa.Function) (out PathOutcome) {
	in.resetState()
	defer func() {
		if r := recover(); r != nil {
			out.Pos = in.posString(in.curPos)
			switch s := r.(type) {
			case goPanicSig:
				out.Kind, out.Msg = "crash", s.msg
				out.Stacks = in.stackOf(in.cur)
			case unsupportedSig:
				out.Kind, out.Msg = "unsupported", s.msg
				out.Stacks = in.stackOf(in.cur)
			case inconclusiveSig:
				out.Kind, out.Msg = "inconclusive", s.msg
			case pathEndSig:
				out.Kind, out.Msg = "end", s.reason
			case raceSig:
				out.Kind, out.Msg = "race", s.msg
				out.Stacks = in.stackOf(in.cur)
			default:
				panic(r)
			}
		}
	}()
	main := in.newG(nil, &FuncV{Fn: entry}, nil, "entry")
	var sleep []Trans
	pathSeen := map[hash128]int{}
	var soloG *G
	soloRun, schedPoints := 0, 0
	for {
		// local phase: run everything up to its next visible operation
		for progress := true; progress; {
			progress = false
			for i := 0; i < len(in.st.gs); i++ {
				g := in.st.gs[i]
				if g.status == GRunnable {
					in.runLocal(g)
					progress = true
				}
			}
		}
		if main.status == GDone {
			return PathOutcome{Kind: "ok"}
		}
		ts := in.enabled()
		if len(ts) == 0 {
			for _, t := range in.st.timers {
				if t.Armed {
					// only a timer could make progress and the harness' fire budget is used up: bounded out
					in.stats.Pruned++
					return PathOutcome{Kind: "end", Msg: "timer fire budget exhausted"}
				}
			}
			in.cur = main
			return PathOutcome{Kind: "deadlock", Msg: "no transition enabled and harness not finished", Stacks: in.allStacks()}
		}
		// livelock bookkeeping: count consecutive scheduling points at which exactly one
		// transition of one goroutine is enabled and no timer is armed (nothing else can
		// ever interfere): a state repeated inside such a run is an infinite execution.
		solo := len(ts) == 1 && ts[0].g != nil && ts[0].g2 == nil
		if solo {
			for _, t := range in.st.timers {
				if t.Armed {
					solo = false
					break
				}
			}
		}
		if solo && (soloG == nil || soloG == ts[0].g) {
			soloG = ts[0].g
			soloRun++
		} else if solo {
			soloG, soloRun = ts[0].g, 1
		} else {
			soloG, soloRun = nil, 0
		}
		schedPoints++
		ts = in.reduce(ts)
		if !in.cfg.NoSleep && len(sleep) > 0 {
			var cands []Trans
			for _, x := range ts {
				asleep := false
				for _, z := range sleep {
					if sameTrans(x, z) {
						asleep = true
						break
					}
				}
				if !asleep {
					cands = append(cands, x)
				}
			}
			if len(cands) == 0 {
				in.stats.Pruned++
				return PathOutcome{Kind: "end", Msg: "sleep-set blocked"}
			}
			ts = cands
		}
		caching := !in.cfg.NoCache && in.sh != nil
		var keepIdx []int
		filt := false
		if caching && in.replaying() {
			p := in.prefix[len(in.trace)]
			if p.Kind != "sched" {
				panic(fmt.Sprintf("replay divergence at decision %d: scheduling point vs %s", len(in.trace), p.Kind))
			}
			keepIdx, filt = p.Keep, p.Filt
		} else if caching {
			h, chanIx := in.stateHash()
			if at, ok := pathSeen[h]; ok && soloRun > 0 && schedPoints-at < soloRun {
				in.cur = main
				return PathOutcome{Kind: "livelock", Msg: fmt.Sprintf("goroutine %s repeats the same state forever (cycle of %d steps) while every other goroutine is blocked and the harness has not finished", soloG.name, schedPoints-at), Stacks: in.allStacks()}
			}
			pathSeen[h] = schedPoints
			var sigs []uint64
			for _, z := range sleep {
				sigs = append(sigs, in.transSig(z, chanIx))
			}
			prune, old, seen := in.sh.visit(h, sigs)
			if prune {
				in.stats.Pruned++
				in.stats.CacheHits++
				return PathOutcome{Kind: "end", Msg: "state already explored"}
			}
			if seen {
				// explore only what the earlier visit left asleep and we must not skip
				oldSet := map[uint64]bool{}
				for _, x := range old {
					oldSet[x] = true
				}
				curSet := map[uint64]bool{}
				for _, x := range sigs {
					curSet[x] = true
				}
				filt = true
				for i, x := range ts {
					sg := in.transSig(x, chanIx)
					if oldSet[sg] && !curSet[sg] {
						keepIdx = append(keepIdx, i)
					}
				}
				if len(keepIdx) == 0 {
					in.stats.Pruned++
					in.stats.CacheHits++
					return PathOutcome{Kind: "end", Msg: "state already explored"}
				}
			}
		}
		if filt {
			var keep []Trans
			k := 0
			for i, x := range ts {
				if k < len(keepIdx) && keepIdx[k] == i {
					keep = append(keep, x)
					k++
				} else {
					sleep = append(sleep, x)
				}
			}
			ts = keep
		}
		pick := 0
		if caching || len(ts) > 1 {
			pick = in.chooseK(len(ts), "sched", "", keepIdx, filt)
		}
		t := ts[pick]
		if !in.cfg.NoSleep {
			var ns []Trans
			for _, z := range sleep {
				if indep(z, t) {
					ns = append(ns, z)
				}
			}
			for _, z := range ts[:pick] {
				if indep(z, t) {
					ns = append(ns, z)
				}
			}
			sleep = ns
		}
		if in.cfg.Preempt >= 0 {
			involves := func(x Trans) bool {
				return (x.g != nil && in.lastActive[x.g]) || (x.g2 != nil && in.lastActive[x.g2])
			}
			if len(in.lastActive) > 0 && !involves(t) {
				for _, x := range ts {
					if involves(x) {
						in.preempts++
						break
					}
				}
			}
			in.lastActive = map[*G]bool{}
			if t.g != nil {
				in.lastActive[t.g] = true
			}
			if t.g2 != nil {
				in.lastActive[t.g2] = true
			}
		}
		in.fire(t)
	}
}

// reduce applies sound singleton reductions: a plain receive on a closed
// channel commutes with everything and cannot be disabled.
func (in *Interp) reduce(ts []Trans) []Trans {
	for _, t := range ts {
		if t.kind == TRecvClosed && t.ci == -1 {
			return []Trans{t}
		}
	}
	if in.cfg.Preempt >= 0 {
		ts = in.boundPreempt(ts)
	}
	return ts
}

func (in *Interp) boundPreempt(ts []Trans) []Trans {
	// if the goroutine(s) of the previous transition can continue, switching away is a preemption
	last := in.lastActive
	if len(last) == 0 || in.preempts < in.cfg.Preempt {
		return ts
	}
	var keep []Trans
	for _, t := range ts {
		if (t.g != nil && last[t.g]) || (t.g2 != nil && last[t.g2]) {
			keep = append(keep, t)
		}
	}
	if len(keep) == 0 {
		return ts
	}
	return keep
}

func (in *Interp) stackOf(g *G) string {
	if g == nil {
		return ""
	}
	var sb strings.Builder
	fmt.Fprintf(&sb, "goroutine %s [%s]:\n", g.name, g.site)
	for i := len(g.frames) - 1; i >= 0; i-- {
		fr := g.frames[i]
		if fr.fn == nil {
			continue
		}
		pos := token.NoPos
		if fr.pc < len(fr.block.Instrs) {
			pos = fr.block.Instrs[fr.pc].Pos()
		}
		fmt.Fprintf(&sb, "  %s (%s)\n", fr.fn.String(), in.posString(pos))
	}
	return sb.String()
}

func (in *Interp) allStacks() string {
	var sb strings.Builder
	for _, g := range in.st.gs {
		if g.status == GDone {
			continue
		}
		sb.WriteString(in.stackOf(g))
		if g.pend != nil {
			fmt.Fprintf(&sb, "  waiting: %s\n", in.pendString(g.pend))
		}
	}
	return sb.String()
}

func (in *Interp) pendString(p *PendOp) string {
	switch p.kind {
	case PSend:
		return fmt.Sprintf("send ch#%s", chanName(p.ch))
	case PRecv:
		return fmt.Sprintf("recv ch#%s", chanName(p.ch))
	case PSelect:
		var cs []string
		for _, c := range p.cases {
			d := "recv"
			if c.send {
				d = "send"
			}
			cs = append(cs, d+" "+chanName(c.ch))
		}
		return "select{" + strings.Join(cs, "; ") + "}"
	case PClose:
		return "close " + chanName(p.ch)
	case PCancel:
		return "cancel"
	case PQuiesce:
		return "quiesce"
	}
	return "?"
}

func chanName(c *Chan) string {
	if c == nil {
		return "nil"
	}
	s := fmt.Sprintf("#%d[%s %d/%d", c.id, c.tag, len(c.Buf), c.Cap)
	if c.Closed {
		s += " closed"
	}
	return s + "]"
}

// liveLibGoroutines lists goroutines spawned by library code that have not exited.
func (in *Interp) liveLibGoroutines() []string {
	var out []string
	for _, g := range in.st.gs {
		if g.lib && g.status != GDone {
			s := g.name + "@" + g.site
			if len(g.frames) > 0 && g.top().fn != nil {
				s += " in " + g.top().fn.String()
			}
			out = append(out, s)
		}
	}
	sort.Strings(out)
	return out
}

func sameTrans(a, b Trans) bool {
	return a.kind == b.kind && a.g == b.g && a.ci == b.ci && a.g2 == b.g2 && a.ci2 == b.ci2 && a.ch == b.ch && a.timer == b.timer
}

func transChans(t Trans) []*Chan {
	if t.kind == TDefault && t.g != nil && t.g.pend != nil {
		var cs []*Chan
		for _, c := range t.g.pend.cases {
			if c.ch != nil {
				cs = append(cs, c.ch)
			}
		}
		return cs
	}
	if t.kind == TCancel && t.g != nil && t.g.pend != nil && t.g.pend.ctx != nil {
		var cs []*Chan
		var walk func(c *CtxObj)
		walk = func(c *CtxObj) {
			if c.Done != nil {
				cs = append(cs, c.Done)
			}
			for _, k := range c.Children {
				walk(k)
			}
		}
		walk(t.g.pend.ctx)
		return cs
	}
	if t.kind == TFire && t.timer != nil && t.timer.C != nil {
		return []*Chan{t.timer.C}
	}
	if t.ch != nil {
		return []*Chan{t.ch}
	}
	return nil
}

// indep under-approximates independence of two enabled transitions: disjoint
// goroutines and disjoint channels. Heap accesses need no clause because
// concurrently enabled conflicting accesses are data races, which the engine
// detects (vector clocks) and reports instead of assuming their absence.
func indep(a, b Trans) bool {
	for _, k := range []TKind{a.kind, b.kind} {
		if k == TQuiesce || k == TSendClosed || k == TCond {
			return false
		}
	}
	// the logical clock and timer state: fires conflict with timer operations and clock reads
	for _, t := range []Trans{a, b} {
		if t.kind == TFire && t.timer != nil && t.timer.Fn != nil && t.timer.Fn.Intrinsic == "ctx.deadline" {
			return false
		}
	}
	isFire := func(t Trans) bool { return t.kind == TFire }
	clk := func(t Trans) bool { return t.kind == TTimerOp || t.kind == TNow }
	if (isFire(a) && clk(b)) || (isFire(b) && clk(a)) {
		return false
	}
	if a.kind == TTimerOp && b.kind == TTimerOp && a.timer != nil && a.timer == b.timer {
		return false
	}
	gs := func(t Trans) [2]*G { return [2]*G{t.g, t.g2} }
	for _, x := range gs(a) {
		if x == nil {
			continue
		}
		for _, y := range gs(b) {
			if x == y {
				return false
			}
		}
	}
	for _, x := range transChans(a) {
		for _, y := range transChans(b) {
			if x == y {
				// same channel: receives from a closed channel only read it; a send into and a
				// receive from a buffered channel that is neither empty nor full commute
				if a.kind == TRecvClosed && b.kind == TRecvClosed {
					continue
				}
				if (a.kind == TSendBuf && b.kind == TRecvBuf) || (a.kind == TRecvBuf && b.kind == TSendBuf) {
					if n := len(x.Buf); n >= 1 && n < x.Cap {
						continue
					}
				}
				return false
			}
		}
	}
	return true
}
