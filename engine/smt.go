package main

// Hash-consed SMT term DAG with constant folding, and an SMT-LIB2 printer.
// Sorts: Bool, BV(w), Str (printed as Real; order-embedded strings, see DESIGN §2.2).

import (
	"fmt"
	"math/big"
	"sort"
	"strings"
)

type Op int

const (
	OpConstBool Op = iota
	OpConstBV
	OpConstStr
	OpVar
	OpNot
	OpAnd
	OpOr
	OpEq
	OpIte
	OpBVAdd
	OpBVSub
	OpBVMul
	OpBVNeg
	OpBVAnd
	OpBVOr
	OpBVXor
	OpBVNot
	OpBVShl
	OpBVLshr
	OpBVAshr
	OpBVUdiv
	OpBVUrem
	OpBVSdiv
	OpBVSrem
	OpBVUlt
	OpBVUle
	OpBVSlt
	OpBVSle
	OpExtract // args[0], hi=aux1, lo=aux2
	OpZeroExt // by aux1
	OpSignExt // by aux1
	OpStrLt
	OpStrLe
	OpUF // name, args
)

// Sort encoding: 0 = Bool, -1 = Str, w>0 = BV(w)
type Sort int

const (
	SBool Sort = 0
	SStr  Sort = -1
)

func (s Sort) String() string {
	switch {
	case s == SBool:
		return "Bool"
	case s == SStr:
		return "Real"
	default:
		return fmt.Sprintf("(_ BitVec %d)", int(s))
	}
}

type Term struct {
	id   int
	op   Op
	sort Sort
	args []*Term
	bv   uint64 // const bv value (masked) / bool (0,1)
	str  string // const string / var name / UF name
	aux1 int
	aux2 int
	smt  string // cached SMT text
	hash uint64 // structural hash (0: not computed)
}

func (t *Term) IsConst() bool { return t.op == OpConstBool || t.op == OpConstBV || t.op == OpConstStr }
func (t *Term) IsTrue() bool  { return t.op == OpConstBool && t.bv == 1 }
func (t *Term) IsFalse() bool { return t.op == OpConstBool && t.bv == 0 }

type UFDecl struct {
	name string
	args []Sort
	ret  Sort
}

type TermCtx struct {
	tab    map[string]*Term
	nextID int
	vars   []*Term // declared vars in creation order
	ufs    map[string]*UFDecl
	ufList []*UFDecl
	True   *Term
	False  *Term
}

func NewTermCtx() *TermCtx {
	c := &TermCtx{tab: map[string]*Term{}, ufs: map[string]*UFDecl{}}
	c.True = c.mk(&Term{op: OpConstBool, sort: SBool, bv: 1})
	c.False = c.mk(&Term{op: OpConstBool, sort: SBool, bv: 0})
	return c
}

func (c *TermCtx) key(t *Term) string {
	var sb strings.Builder
	fmt.Fprintf(&sb, "%d|%d|%d|%q|%d|%d", t.op, t.sort, t.bv, t.str, t.aux1, t.aux2)
	for _, a := range t.args {
		fmt.Fprintf(&sb, "|%d", a.id)
	}
	return sb.String()
}

func (c *TermCtx) mk(t *Term) *Term {
	k := c.key(t)
	if e, ok := c.tab[k]; ok {
		return e
	}
	c.nextID++
	t.id = c.nextID
	c.tab[k] = t
	if t.op == OpVar {
		c.vars = append(c.vars, t)
	}
	return t
}

func mask(w Sort) uint64 {
	if w >= 64 {
		return ^uint64(0)
	}
	return (uint64(1) << uint(w)) - 1
}

func (c *TermCtx) Bool(b bool) *Term {
	if b {
		return c.True
	}
	return c.False
}
func (c *TermCtx) BV(v uint64, w int) *Term {
	return c.mk(&Term{op: OpConstBV, sort: Sort(w), bv: v & mask(Sort(w))})
}
func (c *TermCtx) Str(s string) *Term { return c.mk(&Term{op: OpConstStr, sort: SStr, str: s}) }
func (c *TermCtx) Var(name string, s Sort) *Term {
	return c.mk(&Term{op: OpVar, sort: s, str: name})
}

func (c *TermCtx) Not(a *Term) *Term {
	if a.op == OpConstBool {
		return c.Bool(a.bv == 0)
	}
	if a.op == OpNot {
		return a.args[0]
	}
	return c.mk(&Term{op: OpNot, sort: SBool, args: []*Term{a}})
}

func (c *TermCtx) And(as ...*Term) *Term {
	var out []*Term
	seen := map[int]bool{}
	for _, a := range as {
		if a.IsFalse() {
			return c.False
		}
		if a.IsTrue() {
			continue
		}
		if a.op == OpAnd {
			for _, b := range a.args {
				if !seen[b.id] {
					seen[b.id] = true
					out = append(out, b)
				}
			}
			continue
		}
		if !seen[a.id] {
			seen[a.id] = true
			out = append(out, a)
		}
	}
	for _, a := range out {
		if a.op == OpNot && seen[a.args[0].id] {
			return c.False
		}
	}
	if len(out) == 0 {
		return c.True
	}
	if len(out) == 1 {
		return out[0]
	}
	return c.mk(&Term{op: OpAnd, sort: SBool, args: out})
}

func (c *TermCtx) Or(as ...*Term) *Term {
	var out []*Term
	seen := map[int]bool{}
	for _, a := range as {
		if a.IsTrue() {
			return c.True
		}
		if a.IsFalse() {
			continue
		}
		if a.op == OpOr {
			for _, b := range a.args {
				if !seen[b.id] {
					seen[b.id] = true
					out = append(out, b)
				}
			}
			continue
		}
		if !seen[a.id] {
			seen[a.id] = true
			out = append(out, a)
		}
	}
	for _, a := range out {
		if a.op == OpNot && seen[a.args[0].id] {
			return c.True
		}
	}
	if len(out) == 0 {
		return c.False
	}
	if len(out) == 1 {
		return out[0]
	}
	return c.mk(&Term{op: OpOr, sort: SBool, args: out})
}

func (c *TermCtx) Implies(a, b *Term) *Term { return c.Or(c.Not(a), b) }

func (c *TermCtx) Eq(a, b *Term) *Term {
	if a == b {
		return c.True
	}
	if a.sort != b.sort {
		panic(fmt.Sprintf("Eq sort mismatch %v %v: %s / %s", a.sort, b.sort, c.SMT(a), c.SMT(b)))
	}
	if a.IsConst() && b.IsConst() {
		return c.False // distinct hash-consed constants
	}
	if a.sort == SBool {
		if a.IsTrue() {
			return b
		}
		if a.IsFalse() {
			return c.Not(b)
		}
		if b.IsTrue() {
			return a
		}
		if b.IsFalse() {
			return c.Not(a)
		}
	}
	if a.id > b.id {
		a, b = b, a
	}
	return c.mk(&Term{op: OpEq, sort: SBool, args: []*Term{a, b}})
}

func (c *TermCtx) Ite(cond, a, b *Term) *Term {
	if cond.IsTrue() {
		return a
	}
	if cond.IsFalse() {
		return b
	}
	if a == b {
		return a
	}
	if a.sort == SBool {
		if a.IsTrue() && b.IsFalse() {
			return cond
		}
		if a.IsFalse() && b.IsTrue() {
			return c.Not(cond)
		}
		if a.IsTrue() {
			return c.Or(cond, b)
		}
		if a.IsFalse() {
			return c.And(c.Not(cond), b)
		}
		if b.IsTrue() {
			return c.Or(c.Not(cond), a)
		}
		if b.IsFalse() {
			return c.And(cond, a)
		}
	}
	return c.mk(&Term{op: OpIte, sort: a.sort, args: []*Term{cond, a, b}})
}

func sext(v uint64, w Sort) int64 {
	if w >= 64 {
		return int64(v)
	}
	sh := uint(64 - int(w))
	return int64(v<<sh) >> sh
}

func (c *TermCtx) BVBin(op Op, a, b *Term) *Term {
	if a.sort != b.sort {
		panic(fmt.Sprintf("BVBin sort mismatch %v %v", a.sort, b.sort))
	}
	w := a.sort
	if a.op == OpConstBV && b.op == OpConstBV {
		x, y := a.bv, b.bv
		var r uint64
		ok := true
		switch op {
		case OpBVAdd:
			r = x + y
		case OpBVSub:
			r = x - y
		case OpBVMul:
			r = x * y
		case OpBVAnd:
			r = x & y
		case OpBVOr:
			r = x | y
		case OpBVXor:
			r = x ^ y
		case OpBVShl:
			if y >= uint64(w) {
				r = 0
			} else {
				r = x << y
			}
		case OpBVLshr:
			if y >= uint64(w) {
				r = 0
			} else {
				r = x >> y
			}
		case OpBVAshr:
			sx := sext(x, w)
			if y >= uint64(w) {
				if sx < 0 {
					r = ^uint64(0)
				} else {
					r = 0
				}
			} else {
				r = uint64(sx >> y)
			}
		case OpBVUdiv:
			if y == 0 {
				ok = false
			} else {
				r = x / y
			}
		case OpBVUrem:
			if y == 0 {
				ok = false
			} else {
				r = x % y
			}
		case OpBVSdiv:
			if y == 0 {
				ok = false
			} else {
				sx, sy := sext(x, w), sext(y, w)
				if sy == -1 {
					r = uint64(-sx)
				} else {
					r = uint64(sx / sy)
				}
			}
		case OpBVSrem:
			if y == 0 {
				ok = false
			} else {
				sx, sy := sext(x, w), sext(y, w)
				if sy == -1 {
					r = 0
				} else {
					r = uint64(sx % sy)
				}
			}
		default:
			ok = false
		}
		if ok {
			return c.BV(r, int(w))
		}
	}
	// light identities
	switch op {
	case OpBVAdd:
		if a.op == OpConstBV && a.bv == 0 {
			return b
		}
		if b.op == OpConstBV && b.bv == 0 {
			return a
		}
	case OpBVSub:
		if b.op == OpConstBV && b.bv == 0 {
			return a
		}
		if a == b {
			return c.BV(0, int(w))
		}
	}
	return c.mk(&Term{op: op, sort: w, args: []*Term{a, b}})
}

func (c *TermCtx) BVCmp(op Op, a, b *Term) *Term {
	if a.sort != b.sort {
		panic(fmt.Sprintf("BVCmp sort mismatch %v %v", a.sort, b.sort))
	}
	w := a.sort
	if a.op == OpConstBV && b.op == OpConstBV {
		switch op {
		case OpBVUlt:
			return c.Bool(a.bv < b.bv)
		case OpBVUle:
			return c.Bool(a.bv <= b.bv)
		case OpBVSlt:
			return c.Bool(sext(a.bv, w) < sext(b.bv, w))
		case OpBVSle:
			return c.Bool(sext(a.bv, w) <= sext(b.bv, w))
		}
	}
	if a == b {
		return c.Bool(op == OpBVUle || op == OpBVSle)
	}
	return c.mk(&Term{op: op, sort: SBool, args: []*Term{a, b}})
}

func (c *TermCtx) BVNeg(a *Term) *Term {
	if a.op == OpConstBV {
		return c.BV(-a.bv, int(a.sort))
	}
	return c.mk(&Term{op: OpBVNeg, sort: a.sort, args: []*Term{a}})
}
func (c *TermCtx) BVNot(a *Term) *Term {
	if a.op == OpConstBV {
		return c.BV(^a.bv, int(a.sort))
	}
	return c.mk(&Term{op: OpBVNot, sort: a.sort, args: []*Term{a}})
}

// Resize converts a BV term to width w (signed selects sign extension).
func (c *TermCtx) Resize(a *Term, w int, signed bool) *Term {
	aw := int(a.sort)
	if aw == w {
		return a
	}
	if a.op == OpConstBV {
		if w < aw {
			return c.BV(a.bv, w)
		}
		if signed {
			return c.BV(uint64(sext(a.bv, a.sort)), w)
		}
		return c.BV(a.bv, w)
	}
	if w < aw {
		return c.mk(&Term{op: OpExtract, sort: Sort(w), args: []*Term{a}, aux1: w - 1, aux2: 0})
	}
	if signed {
		return c.mk(&Term{op: OpSignExt, sort: Sort(w), args: []*Term{a}, aux1: w - aw})
	}
	return c.mk(&Term{op: OpZeroExt, sort: Sort(w), args: []*Term{a}, aux1: w - aw})
}

func (c *TermCtx) StrLt(a, b *Term) *Term {
	if a.op == OpConstStr && b.op == OpConstStr {
		return c.Bool(a.str < b.str)
	}
	if a == b {
		return c.False
	}
	return c.mk(&Term{op: OpStrLt, sort: SBool, args: []*Term{a, b}})
}
func (c *TermCtx) StrLe(a, b *Term) *Term {
	if a.op == OpConstStr && b.op == OpConstStr {
		return c.Bool(a.str <= b.str)
	}
	if a == b {
		return c.True
	}
	return c.mk(&Term{op: OpStrLe, sort: SBool, args: []*Term{a, b}})
}

func (c *TermCtx) UF(name string, ret Sort, args ...*Term) *Term {
	d, ok := c.ufs[name]
	if !ok {
		d = &UFDecl{name: name, ret: ret}
		for _, a := range args {
			d.args = append(d.args, a.sort)
		}
		c.ufs[name] = d
		c.ufList = append(c.ufList, d)
	} else {
		if len(d.args) != len(args) || d.ret != ret {
			panic("UF redeclared with different signature: " + name)
		}
		for i, a := range args {
			if d.args[i] != a.sort {
				panic("UF arg sort mismatch: " + name)
			}
		}
	}
	return c.mk(&Term{op: OpUF, sort: ret, str: name, args: args})
}

var strBase = big.NewInt(257)

// strCode: order-preserving injective embedding of byte strings into [0,1).
func strCode(s string) string {
	if s == "" {
		return "0.0"
	}
	num := new(big.Int)
	den := big.NewInt(1)
	for i := 0; i < len(s); i++ {
		num.Mul(num, strBase)
		num.Add(num, big.NewInt(int64(s[i])+1))
		den.Mul(den, strBase)
	}
	return fmt.Sprintf("(/ %s.0 %s.0)", num.String(), den.String())
}

func smtName(s string) string { return "|" + strings.ReplaceAll(s, "|", "!") + "|" }

func (c *TermCtx) SMT(t *Term) string {
	if t.smt != "" {
		return t.smt
	}
	var s string
	n := func(op string) string {
		parts := make([]string, 0, len(t.args)+1)
		parts = append(parts, op)
		for _, a := range t.args {
			parts = append(parts, c.SMT(a))
		}
		return "(" + strings.Join(parts, " ") + ")"
	}
	switch t.op {
	case OpConstBool:
		if t.bv == 1 {
			s = "true"
		} else {
			s = "false"
		}
	case OpConstBV:
		s = fmt.Sprintf("(_ bv%d %d)", t.bv, int(t.sort))
	case OpConstStr:
		s = strCode(t.str)
	case OpVar:
		s = smtName(t.str)
	case OpNot:
		s = n("not")
	case OpAnd:
		s = n("and")
	case OpOr:
		s = n("or")
	case OpEq:
		s = n("=")
	case OpIte:
		s = n("ite")
	case OpBVAdd:
		s = n("bvadd")
	case OpBVSub:
		s = n("bvsub")
	case OpBVMul:
		s = n("bvmul")
	case OpBVNeg:
		s = n("bvneg")
	case OpBVAnd:
		s = n("bvand")
	case OpBVOr:
		s = n("bvor")
	case OpBVXor:
		s = n("bvxor")
	case OpBVNot:
		s = n("bvnot")
	case OpBVShl:
		s = n("bvshl")
	case OpBVLshr:
		s = n("bvlshr")
	case OpBVAshr:
		s = n("bvashr")
	case OpBVUdiv:
		s = n("bvudiv")
	case OpBVUrem:
		s = n("bvurem")
	case OpBVSdiv:
		s = n("bvsdiv")
	case OpBVSrem:
		s = n("bvsrem")
	case OpBVUlt:
		s = n("bvult")
	case OpBVUle:
		s = n("bvule")
	case OpBVSlt:
		s = n("bvslt")
	case OpBVSle:
		s = n("bvsle")
	case OpExtract:
		s = fmt.Sprintf("((_ extract %d %d) %s)", t.aux1, t.aux2, c.SMT(t.args[0]))
	case OpZeroExt:
		s = fmt.Sprintf("((_ zero_extend %d) %s)", t.aux1, c.SMT(t.args[0]))
	case OpSignExt:
		s = fmt.Sprintf("((_ sign_extend %d) %s)", t.aux1, c.SMT(t.args[0]))
	case OpStrLt:
		s = n("<")
	case OpStrLe:
		s = n("<=")
	case OpUF:
		if len(t.args) == 0 {
			s = smtName(t.str)
		} else {
			s = n(smtName(t.str))
		}
	default:
		panic("SMT: unknown op")
	}
	t.smt = s
	return s
}

// collect free vars and UF applications of a set of terms
func (c *TermCtx) Collect(ts []*Term) (vars []*Term, apps []*Term) {
	seen := map[int]bool{}
	var walk func(t *Term)
	walk = func(t *Term) {
		if seen[t.id] {
			return
		}
		seen[t.id] = true
		for _, a := range t.args {
			walk(a)
		}
		if t.op == OpVar {
			vars = append(vars, t)
		}
		if t.op == OpUF {
			apps = append(apps, t)
		}
	}
	for _, t := range ts {
		walk(t)
	}
	sort.Slice(vars, func(i, j int) bool { return vars[i].id < vars[j].id })
	sort.Slice(apps, func(i, j int) bool { return apps[i].id < apps[j].id })
	return
}

// Eval evaluates a term under an assignment of vars / UF apps (by term id) to constants.
// Returns nil when some leaf is unassigned.
func (c *TermCtx) Eval(t *Term, asg map[int]*Term) *Term {
	memo := map[int]*Term{}
	var ev func(t *Term) *Term
	ev = func(t *Term) *Term {
		if t.IsConst() {
			return t
		}
		if r, ok := memo[t.id]; ok {
			return r
		}
		var r *Term
		if t.op == OpVar {
			r = asg[t.id]
		} else {
			if t.op == OpUF {
				if v, ok := asg[t.id]; ok {
					memo[t.id] = v
					return v
				}
			}
			args := make([]*Term, len(t.args))
			for i, a := range t.args {
				args[i] = ev(a)
				if args[i] == nil {
					memo[t.id] = nil
					return nil
				}
			}
			r = c.rebuild(t, args)
			if !r.IsConst() {
				r = nil
			}
		}
		memo[t.id] = r
		return r
	}
	return ev(t)
}

func (c *TermCtx) rebuild(t *Term, args []*Term) *Term {
	switch t.op {
	case OpNot:
		return c.Not(args[0])
	case OpAnd:
		return c.And(args...)
	case OpOr:
		return c.Or(args...)
	case OpEq:
		return c.Eq(args[0], args[1])
	case OpIte:
		return c.Ite(args[0], args[1], args[2])
	case OpBVNeg:
		return c.BVNeg(args[0])
	case OpBVNot:
		return c.BVNot(args[0])
	case OpBVUlt, OpBVUle, OpBVSlt, OpBVSle:
		return c.BVCmp(t.op, args[0], args[1])
	case OpExtract:
		return c.Resize(args[0], int(t.sort), false)
	case OpZeroExt:
		return c.Resize(args[0], int(t.sort), false)
	case OpSignExt:
		return c.Resize(args[0], int(t.sort), true)
	case OpStrLt:
		return c.StrLt(args[0], args[1])
	case OpStrLe:
		return c.StrLe(args[0], args[1])
	case OpUF:
		return c.UF(t.str, t.sort, args...)
	default:
		return c.BVBin(t.op, args[0], args[1])
	}
}
