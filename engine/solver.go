package main

// One long-lived SMT solver process (z3 -in by default) with an assertion
// stack that mirrors the current path condition.

import (
	"bufio"
	"fmt"
	"io"
	"os/exec"
	"strings"
	"time"
)

type SatResult int

const (
	Sat SatResult = iota
	Unsat
	Unknown
)

func (r SatResult) String() string { return [...]string{"sat", "unsat", "unknown"}[r] }

type Solver struct {
	ctx      *TermCtx
	kind     string // z3, z3-new, cvc5
	cmd      *exec.Cmd
	in       io.WriteCloser
	out      *bufio.Reader
	stack    []*Term // asserted terms, one push level each
	declVars int     // number of ctx.vars declared so far
	declUFs  int
	Queries  int
	SatN     int
	UnsatN   int
	UnknownN int
	Time     time.Duration
	Errors   []string
	log      io.Writer
}

func solverArgv(kind string, timeoutMs int) []string {
	switch kind {
	case "z3":
		return []string{"z3", "-in", fmt.Sprintf("-t:%d", timeoutMs)}
	case "z3-new":
		return []string{"z3-new", "-in", fmt.Sprintf("-t:%d", timeoutMs)}
	case "cvc5":
		return []string{"cvc5", "--incremental", "--lang=smt2", fmt.Sprintf("--tlimit-per=%d", timeoutMs), "--produce-models"}
	}
	panic("unknown solver " + kind)
}

func NewSolver(ctx *TermCtx, kind string, timeoutMs int) (*Solver, error) {
	argv := solverArgv(kind, timeoutMs)
	cmd := exec.Command(argv[0], argv[1:]...)
	in, err := cmd.StdinPipe()
	if err != nil {
		return nil, err
	}
	outp, err := cmd.StdoutPipe()
	if err != nil {
		return nil, err
	}
	cmd.Stderr = cmd.Stdout
	if err := cmd.Start(); err != nil {
		return nil, err
	}
	s := &Solver{ctx: ctx, kind: kind, cmd: cmd, in: in, out: bufio.NewReaderSize(outp, 1<<16)}
	s.send("(set-option :global-declarations true)")
	s.send("(set-option :produce-models true)")
	if kind == "cvc5" {
		s.send("(set-logic ALL)")
	}
	return s, nil
}

func (s *Solver) Close() {
	if s.cmd != nil {
		s.in.Close()
		s.cmd.Process.Kill()
		s.cmd.Wait()
		s.cmd = nil
	}
}

func (s *Solver) send(line string) {
	if s.log != nil {
		fmt.Fprintln(s.log, line)
	}
	io.WriteString(s.in, line+"\n")
}

func (s *Solver) declare() {
	for ; s.declVars < len(s.ctx.vars); s.declVars++ {
		v := s.ctx.vars[s.declVars]
		s.send(fmt.Sprintf("(declare-const %s %s)", smtName(v.str), v.sort))
	}
	for ; s.declUFs < len(s.ctx.ufList); s.declUFs++ {
		d := s.ctx.ufList[s.declUFs]
		as := make([]string, len(d.args))
		for i, a := range d.args {
			as[i] = a.String()
		}
		s.send(fmt.Sprintf("(declare-fun %s (%s) %s)", smtName(d.name), strings.Join(as, " "), d.ret))
	}
}

// sync the solver assertion stack with pc (sequence of terms)
func (s *Solver) syncTo(pc []*Term) {
	n := 0
	for n < len(pc) && n < len(s.stack) && pc[n] == s.stack[n] {
		n++
	}
	if d := len(s.stack) - n; d > 0 {
		s.send(fmt.Sprintf("(pop %d)", d))
		s.stack = s.stack[:n]
	}
	for _, t := range pc[n:] {
		txt := s.ctx.SMT(t)
		s.declare()
		s.send("(push 1)")
		s.send("(assert " + txt + ")")
		s.stack = append(s.stack, t)
	}
}

func (s *Solver) readLine() string {
	line, err := s.out.ReadString('\n')
	if err != nil {
		s.Errors = append(s.Errors, "solver read: "+err.Error())
		return "(error \"solver died\")"
	}
	return strings.TrimSpace(line)
}

func (s *Solver) readResult() SatResult {
	for {
		line := s.readLine()
		switch {
		case line == "sat":
			return Sat
		case line == "unsat":
			return Unsat
		case line == "unknown" || line == "timeout":
			return Unknown
		case strings.HasPrefix(line, "(error"):
			s.Errors = append(s.Errors, line)
			if strings.Contains(line, "solver died") {
				return Unknown
			}
			// keep reading: the check-sat answer follows, but the result is tainted
		case line == "":
		default:
			s.Errors = append(s.Errors, "unexpected solver output: "+line)
		}
	}
}

// Check decides sat(pc ∧ extra...).
func (s *Solver) Check(pc []*Term, extra ...*Term) SatResult {
	t0 := time.Now()
	full := pc
	if len(extra) > 0 {
		full = append(append([]*Term{}, pc...), extra...)
	}
	nerr := len(s.Errors)
	s.syncTo(full)
	s.declare()
	s.send("(check-sat)")
	r := s.readResult()
	if len(s.Errors) != nerr {
		r = Unknown
	}
	s.Queries++
	switch r {
	case Sat:
		s.SatN++
	case Unsat:
		s.UnsatN++
	default:
		s.UnknownN++
	}
	s.Time += time.Since(t0)
	return r
}

// Model returns constant values for the given terms; must follow a Sat Check.
func (s *Solver) Model(ts []*Term) map[int]*Term {
	res := map[int]*Term{}
	if len(ts) == 0 {
		return res
	}
	parts := make([]string, len(ts))
	for i, t := range ts {
		parts[i] = s.ctx.SMT(t)
	}
	s.send("(get-value (" + strings.Join(parts, " ") + "))")
	txt := s.readSexp()
	sx, err := parseSexp(txt)
	if err != nil || len(sx.list) != len(ts) {
		s.Errors = append(s.Errors, "model parse: "+txt)
		return res
	}
	for i, pair := range sx.list {
		if len(pair.list) != 2 {
			continue
		}
		if v := s.parseValue(pair.list[1], ts[i].sort); v != nil {
			res[ts[i].id] = v
		}
	}
	return res
}

func (s *Solver) readSexp() string {
	var sb strings.Builder
	depth := 0
	started := false
	for {
		line := s.readLine()
		sb.WriteString(line)
		sb.WriteString(" ")
		for _, ch := range line {
			if ch == '(' {
				depth++
				started = true
			} else if ch == ')' {
				depth--
			}
		}
		if started && depth <= 0 {
			break
		}
		if !started && line != "" {
			break
		}
	}
	return sb.String()
}

type sexp struct {
	atom string
	list []*sexp
	isL  bool
}

func parseSexp(s string) (*sexp, error) {
	pos := 0
	var parse func() (*sexp, error)
	skip := func() {
		for pos < len(s) && (s[pos] == ' ' || s[pos] == '\n' || s[pos] == '\t' || s[pos] == '\r') {
			pos++
		}
	}
	parse = func() (*sexp, error) {
		skip()
		if pos >= len(s) {
			return nil, fmt.Errorf("eof")
		}
		if s[pos] == '(' {
			pos++
			n := &sexp{isL: true}
			for {
				skip()
				if pos >= len(s) {
					return nil, fmt.Errorf("eof in list")
				}
				if s[pos] == ')' {
					pos++
					return n, nil
				}
				c, err := parse()
				if err != nil {
					return nil, err
				}
				n.list = append(n.list, c)
			}
		}
		start := pos
		if s[pos] == '|' {
			pos++
			for pos < len(s) && s[pos] != '|' {
				pos++
			}
			pos++
			return &sexp{atom: s[start:pos]}, nil
		}
		if s[pos] == '"' {
			pos++
			for pos < len(s) && s[pos] != '"' {
				pos++
			}
			pos++
			return &sexp{atom: s[start:pos]}, nil
		}
		for pos < len(s) && !strings.ContainsRune(" \n\t\r()", rune(s[pos])) {
			pos++
		}
		return &sexp{atom: s[start:pos]}, nil
	}
	return parse()
}

func (x *sexp) String() string {
	if !x.isL {
		return x.atom
	}
	ps := make([]string, len(x.list))
	for i, c := range x.list {
		ps[i] = c.String()
	}
	return "(" + strings.Join(ps, " ") + ")"
}

// parseValue turns a model value into a constant term. Str-sorted values are
// kept as opaque rational text in a const-str term tagged with "\x00rat:" so
// that distinct rationals stay distinct; they are decoded by the replay writer.
func (s *Solver) parseValue(x *sexp, sort Sort) *Term {
	c := s.ctx
	switch {
	case sort == SBool:
		if x.atom == "true" {
			return c.True
		}
		if x.atom == "false" {
			return c.False
		}
	case sort == SStr:
		return c.Str("\x00rat:" + x.String())
	default:
		if strings.HasPrefix(x.atom, "#x") {
			var v uint64
			fmt.Sscanf(x.atom[2:], "%x", &v)
			return c.BV(v, int(sort))
		}
		if strings.HasPrefix(x.atom, "#b") {
			var v uint64
			for _, ch := range x.atom[2:] {
				v = v<<1 | uint64(ch-'0')
			}
			return c.BV(v, int(sort))
		}
		if x.isL && len(x.list) == 3 && x.list[0].atom == "_" && strings.HasPrefix(x.list[1].atom, "bv") {
			var v uint64
			fmt.Sscanf(x.list[1].atom[2:], "%d", &v)
			return c.BV(v, int(sort))
		}
	}
	return nil
}
