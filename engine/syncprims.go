package main

// Models for sync.Mutex/RWMutex/WaitGroup, sync/atomic, time.After/Sleep/Now,
// context.WithTimeout/WithDeadline/WithValue, errors.Is - constructs kcache does
// not use today but a change to it plausibly might. sync.Once runs its real code
// on top of these.

import (
	"fmt"
	"go/types"
	"strings"

	"golang.org/x/tools/go/ssa"
)

type auxKey struct {
	c    *Cell
	path string
}

type AuxObj struct {
	lock *Chan // mutex: capacity-1 channel (send = lock, receive = unlock)
	wg   int   // wait group counter
	vc   []int // release clock (atomics, wait group)
}

func (in *Interp) aux(p Ptr) *AuxObj {
	if p.Base == nil {
		panic(goPanic("nil pointer dereference"))
	}
	k := auxKey{p.Base, fmt.Sprint(p.Path)}
	if in.st.auxs == nil {
		in.st.auxs = map[auxKey]*AuxObj{}
	}
	a := in.st.auxs[k]
	if a == nil {
		a = &AuxObj{}
		in.st.auxs[k] = a
	}
	return a
}

func (in *Interp) lockChan(p Ptr) *Chan {
	a := in.aux(p)
	if a.lock == nil {
		a.lock = in.newChan(1, types.NewStruct(nil, nil), "mutex")
	}
	return a.lock
}

// syncVisible turns blocking sync operations into visible operations.
// Returns true when it handled the call.
func (in *Interp) syncVisible(g *G, name string, args []Value, retTo ssa.Value, adv func()) bool {
	switch name {
	case "(*sync.Mutex).Lock", "(*sync.RWMutex).Lock", "(*sync.RWMutex).RLock":
		ch := in.lockChan(args[0].(Ptr))
		g.status = GPending
		g.pend = &PendOp{kind: PSend, ch: ch, val: nil, pos: in.curPos, done: adv}
		return true
	case "(*sync.Mutex).Unlock", "(*sync.RWMutex).Unlock", "(*sync.RWMutex).RUnlock":
		ch := in.lockChan(args[0].(Ptr))
		if len(ch.Buf) == 0 {
			panic(goPanic("sync: unlock of unlocked mutex"))
		}
		g.status = GPending
		g.pend = &PendOp{kind: PRecv, ch: ch, pos: in.curPos, recv: func(Value, bool) { adv() }}
		return true
	case "(*sync.WaitGroup).Wait":
		a := in.aux(args[0].(Ptr))
		g.status = GPending
		g.pend = &PendOp{kind: PCond, pos: in.curPos, cond: func() bool { return a.wg == 0 }, done: func() {
			g.vc = joinVC(g.vc, a.vc)
			adv()
		}}
		return true
	case "time.Sleep":
		t, _ := in.newTimer(args[0].(*Term), nil)
		g.status = GPending
		g.pend = &PendOp{kind: PRecv, ch: t.C, pos: in.curPos, recv: func(Value, bool) { adv() }}
		return true
	}
	return false
}

func atomicField(in *Interp, fv *FuncV, p Ptr) Ptr {
	// receiver *atomic.X : struct with a field named v
	rt := fv.Fn.Signature.Recv().Type().(*types.Pointer).Elem().Underlying().(*types.Struct)
	for i := 0; i < rt.NumFields(); i++ {
		if rt.Field(i).Name() == "v" {
			return subPath(p, i)
		}
	}
	panic(unsupported("atomic type without field v"))
}

func (in *Interp) rawLoad(p Ptr) Value { return in.getPath(p.Base.V, p.Path) }
func (in *Interp) rawStore(p Ptr, v Value) {
	p.Base.V = in.setPath(p.Base.V, p.Path, v)
}

func (in *Interp) atomicAcquire(p Ptr) {
	if in.cur != nil {
		in.cur.vc = joinVC(in.cur.vc, in.aux(p).vc)
	}
}
func (in *Interp) atomicRelease(p Ptr) {
	if in.cur != nil {
		a := in.aux(p)
		a.vc = joinVC(a.vc, in.cur.vc)
		in.tick(in.cur)
	}
}

func atomicOp(op string, method bool) intrinsicFn {
	return func(in *Interp, g *G, fv *FuncV, a []Value) Value {
		p := a[0].(Ptr)
		if p.Base == nil {
			panic(goPanic("nil pointer dereference"))
		}
		if method {
			p = atomicField(in, fv, p)
		}
		tc := in.tc
		switch op {
		case "Load":
			in.atomicAcquire(p)
			return in.rawLoad(p)
		case "Store":
			in.rawStore(p, a[1])
			in.atomicRelease(p)
			return nil
		case "Swap":
			in.atomicAcquire(p)
			old := in.rawLoad(p)
			in.rawStore(p, a[1])
			in.atomicRelease(p)
			return old
		case "Add":
			in.atomicAcquire(p)
			nv := tc.BVBin(OpBVAdd, in.rawLoad(p).(*Term), a[1].(*Term))
			in.rawStore(p, nv)
			in.atomicRelease(p)
			return nv
		case "CompareAndSwap":
			in.atomicAcquire(p)
			cur := in.rawLoad(p)
			if in.branch(in.equal(cur, a[1])) {
				in.rawStore(p, a[2])
				in.atomicRelease(p)
				return tc.True
			}
			return tc.False
		}
		panic(unsupported("atomic op " + op))
	}
}

func atomicBool(op string) intrinsicFn {
	return func(in *Interp, g *G, fv *FuncV, a []Value) Value {
		p := atomicField(in, fv, a[0].(Ptr))
		tc := in.tc
		toU := func(v Value) Value { return tc.Ite(v.(*Term), tc.BV(1, 32), tc.BV(0, 32)) }
		toB := func(v Value) Value { return tc.Not(tc.Eq(v.(*Term), tc.BV(0, 32))) }
		switch op {
		case "Load":
			in.atomicAcquire(p)
			return toB(in.rawLoad(p))
		case "Store":
			in.rawStore(p, toU(a[1]))
			in.atomicRelease(p)
			return nil
		case "Swap":
			old := toB(in.rawLoad(p))
			in.rawStore(p, toU(a[1]))
			in.atomicRelease(p)
			return old
		case "CompareAndSwap":
			cur := toB(in.rawLoad(p)).(*Term)
			if in.branch(tc.Eq(cur, a[1].(*Term))) {
				in.rawStore(p, toU(a[2]))
				in.atomicRelease(p)
				return tc.True
			}
			return tc.False
		}
		panic(unsupported("atomic.Bool op " + op))
	}
}

func init() {
	for _, ty := range []string{"Int32", "Int64", "Uint32", "Uint64", "Uintptr"} {
		for _, op := range []string{"Load", "Store", "Swap", "Add", "CompareAndSwap"} {
			intrinsics["(*sync/atomic."+ty+")."+op] = atomicOp(op, true)
			intrinsics["sync/atomic."+op+ty] = atomicOp(op, false)
		}
	}
	for _, op := range []string{"Load", "Store", "Swap", "CompareAndSwap"} {
		intrinsics["(*sync/atomic.Bool)."+op] = atomicBool(op)
	}
	for _, op := range []string{"Load", "Store", "Swap", "CompareAndSwap"} {
		intrinsics["(*sync/atomic.Pointer[T])."+op] = atomicOp(op, true)
	}
	intrinsics["(*sync/atomic.Value).Load"] = func(in *Interp, g *G, fv *FuncV, a []Value) Value {
		p := atomicField(in, fv, a[0].(Ptr))
		in.atomicAcquire(p)
		return in.rawLoad(p)
	}
	intrinsics["(*sync/atomic.Value).Store"] = func(in *Interp, g *G, fv *FuncV, a []Value) Value {
		p := atomicField(in, fv, a[0].(Ptr))
		in.rawStore(p, a[1])
		in.atomicRelease(p)
		return nil
	}
	intrinsics["(*sync.Mutex).TryLock"] = func(in *Interp, g *G, fv *FuncV, a []Value) Value {
		ch := in.lockChan(a[0].(Ptr))
		if len(ch.Buf) == 0 {
			ch.Buf = append(ch.Buf, nil)
			ch.BufVC = append(ch.BufVC, append([]int(nil), g.vc...))
			ch.Sends++
			return in.tc.True
		}
		return in.tc.False
	}
	wgAdd := func(in *Interp, g *G, fv *FuncV, a []Value) Value {
		x := in.aux(a[0].(Ptr))
		d := -1
		if len(a) > 1 {
			d = in.concreteInt(a[1].(*Term))
		}
		x.wg += d
		if x.wg < 0 {
			panic(goPanic("sync: negative WaitGroup counter"))
		}
		x.vc = joinVC(x.vc, g.vc)
		in.tick(g)
		return nil
	}
	intrinsics["(*sync.WaitGroup).Add"] = wgAdd
	intrinsics["(*sync.WaitGroup).Done"] = wgAdd
	intrinsics["time.After"] = func(in *Interp, g *G, fv *FuncV, a []Value) Value {
		t, _ := in.newTimer(a[0].(*Term), nil)
		return ChanV{t.C}
	}
	intrinsics["time.Now"] = func(in *Interp, g *G, fv *FuncV, a []Value) Value { return in.zero(in.timeType) }
	intrinsics["time.Since"] = func(in *Interp, g *G, fv *FuncV, a []Value) Value { return in.tc.BV(0, 64) }
	intrinsics["time.Until"] = func(in *Interp, g *G, fv *FuncV, a []Value) Value { return in.tc.BV(0, 64) }
	for _, n := range []string{"fmt.Println", "fmt.Printf", "fmt.Print", "log.Printf", "log.Println", "log.Print"} {
		intrinsics[n] = func(in *Interp, g *G, fv *FuncV, a []Value) Value { return nil }
	}
	intrinsics["fmt.Sprintln"] = sSprintf
	intrinsics["errors.Is"] = func(in *Interp, g *G, fv *FuncV, a []Value) Value {
		e, target := a[0].(IfaceV), a[1].(IfaceV)
		for e.T != nil {
			eq := in.equal(e, target)
			if eq.IsTrue() {
				return in.tc.True
			}
			eo, ok := e.V.(*ErrObj)
			if !ok || eo.Cause == nil {
				break
			}
			e = *eo.Cause
		}
		return in.tc.Bool(e.T == nil && target.T == nil)
	}
	intrinsics["github.com/pkg/errors.Is"] = intrinsics["errors.Is"]
	intrinsics["errors.Unwrap"] = func(in *Interp, g *G, fv *FuncV, a []Value) Value {
		e := a[0].(IfaceV)
		if eo, ok := e.V.(*ErrObj); ok && eo.Cause != nil {
			return *eo.Cause
		}
		return IfaceV{}
	}
	intrinsics["github.com/pkg/errors.Unwrap"] = intrinsics["errors.Unwrap"]
	ctxTimeout := func(in *Interp, g *G, fv *FuncV, a []Value) Value {
		p := a[0].(IfaceV)
		po, ok := p.V.(*CtxObj)
		if !ok {
			panic(unsupported("context.WithTimeout on a user-defined context"))
		}
		c := in.newCtx(po, true)
		d := in.tc.BV(0, 64)
		if t, isT := a[1].(*Term); isT {
			d = t
		}
		tm, _ := in.newTimer(d, &FuncV{Intrinsic: "ctx.deadline", Data: c})
		_ = tm
		return TupleV{in.ctxIface(c), &FuncV{Intrinsic: "ctx.cancel", Data: c}}
	}
	intrinsics["context.WithTimeout"] = ctxTimeout
	intrinsics["context.WithDeadline"] = ctxTimeout
	intrinsics["context.WithValue"] = func(in *Interp, g *G, fv *FuncV, a []Value) Value {
		p := a[0].(IfaceV)
		po, ok := p.V.(*CtxObj)
		if !ok {
			panic(unsupported("context.WithValue on a user-defined context"))
		}
		c := in.newCtx(po, false)
		c.vkey, c.vval = a[1], a[2]
		return in.ctxIface(c)
	}
	intrinsics["builtin:min"] = minMax(true)
	intrinsics["builtin:max"] = minMax(false)
}

func minMax(isMin bool) intrinsicFn {
	return func(in *Interp, g *G, fv *FuncV, a []Value) Value {
		tc := in.tc
		r, ok := a[0].(*Term)
		if !ok || r.sort == SStr || r.sort == SBool {
			panic(unsupported("min/max on non-integer"))
		}
		for _, x := range a[1:] {
			y := x.(*Term)
			// signedness is not available here: integers in kcache are signed
			c := tc.BVCmp(OpBVSlt, y, r)
			if !isMin {
				c = tc.BVCmp(OpBVSlt, r, y)
			}
			r = tc.Ite(c, y, r)
		}
		return r
	}
}

var _ = strings.HasPrefix
