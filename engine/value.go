package main

import (
	"fmt"
	"go/types"
	"strings"

	"golang.org/x/tools/go/ssa"
)

// Value is one of:
//   *Term        bool / integer / string scalars
//   FloatV       concrete float64
//   Ptr          pointer (Base==nil: nil pointer)
//   *StructV     struct value (immutable by convention)
//   *ArrayV      array value (immutable by convention)
//   SliceV       slice (Arr==nil: nil slice)
//   MapV         map (M==nil: nil map)
//   ChanV        channel (C==nil: nil channel)
//   IfaceV       interface value (T==nil: nil interface)
//   *FuncV       function value (nil pointer: nil func)
//   TupleV       multiple results
type Value interface{}

type FloatV struct{ F float64 }

// SymBytesV is []byte(s) for a symbolic string s. It has no element model: only the
// hash models (hashmodel.go) consume it, every other use is reported as unsupported.
type SymBytesV struct{ S *Term }

type Cell struct {
	id  int
	V   Value
	T   types.Type // type of the stored value
	tag string     // allocation site comment
	// builtin attachments
	timer *TimerObj
	accs  []*pathAcc
}

type pathAcc struct {
	path []int
	log  accessLog
}

// accessLog records the last write and the reads since, with vector clocks,
// for the unsynchronised-shared-access check.
type accessLog struct {
	wG     *G
	wClock int
	wPos   string
	reads  map[*G]int
}

type Ptr struct {
	Base *Cell
	Path []int
}

func (p Ptr) IsNil() bool { return p.Base == nil }

type StructV struct {
	T *types.Struct
	F []Value // nil entries = zero value (lazy)
}

type ArrayV struct {
	Elem  types.Type
	Elems []Value // nil entries = zero value (lazy)
}

type SliceV struct {
	Arr *Cell // holds *ArrayV
	Off int
	Len int
	Cap int
}

type MapEntry struct {
	K, V    Value
	Deleted bool
}

type MapObj struct {
	id      int
	T       *types.Map
	Entries []*MapEntry // insertion order; deleted entries are kept (tombstones) for iterator stability
	N       int         // live count
	acc     accessLog
}

type MapV struct{ M *MapObj }

type MapIter struct {
	M      *MapObj
	Order  []*MapEntry
	Pos    int
	Str    *Term // for range over string (unsupported symbolic)
	IsMap  bool
	strPos int
}

type ChanV struct{ C *Chan }

type IfaceV struct {
	T types.Type
	V Value
}

type FuncV struct {
	Fn        *ssa.Function
	Bind      []Value
	Intrinsic string  // engine-implemented function value
	Data      Value   // payload for intrinsic closures (e.g. the context to cancel)
	Recv      *IfaceV // bound interface method: receiver
	Method    *types.Func
}

type TupleV []Value

// ---- builtin engine objects (appear as IfaceV.V or behind pointers) ----

type ErrObj struct {
	id    int
	Msg   string
	Cause *IfaceV // wrapped error or nil
	Name  string  // global name if it is a package-level sentinel
}

type CtxObj struct {
	id       int
	Done     *Chan // nil for Background
	Err      *IfaceV
	Parent   *CtxObj
	Children []*CtxObj
	Values   map[string]Value
	vkey     Value
	vval     Value
}

type TimerObj struct {
	id       int
	Armed    bool
	Deadline *Term // BV64
	C        *Chan
	Fn       *FuncV // AfterFunc
	cell     *Cell
	Fires    int
	armVC    []int
	deadline *Term
}

// ---- channels ----

type Chan struct {
	id     int
	Cap    int
	Buf    []Value
	BufVC  [][]int
	RecvVC [][]int // vector clocks of completed receives (buffered channels): the k-th receive happens before the (k+cap)-th send completes
	Sends  int
	Closed bool
	Elem   types.Type
	tag    string
	closeVC []int
	recvW   []opRef
	wEpoch  int
}

// ---- zero values ----

func (in *Interp) zero(t types.Type) Value {
	switch u := t.Underlying().(type) {
	case *types.Basic:
		switch {
		case u.Info()&types.IsBoolean != 0:
			return in.tc.False
		case u.Info()&types.IsString != 0:
			return in.tc.Str("")
		case u.Info()&types.IsInteger != 0:
			return in.tc.BV(0, intWidth(u))
		case u.Info()&types.IsFloat != 0:
			return FloatV{0}
		case u.Kind() == types.UnsafePointer:
			return Ptr{}
		case u.Kind() == types.UntypedNil:
			return nil
		}
	case *types.Pointer:
		return Ptr{}
	case *types.Struct:
		return &StructV{T: u, F: make([]Value, u.NumFields())}
	case *types.Array:
		return &ArrayV{Elem: u.Elem(), Elems: make([]Value, int(u.Len()))}
	case *types.Slice:
		return SliceV{}
	case *types.Map:
		return MapV{}
	case *types.Chan:
		return ChanV{}
	case *types.Interface:
		return IfaceV{}
	case *types.Signature:
		return (*FuncV)(nil)
	case *types.Tuple:
		tv := make(TupleV, u.Len())
		for i := range tv {
			tv[i] = in.zero(u.At(i).Type())
		}
		return tv
	}
	panic(unsupported("zero value of " + t.String()))
}

func intWidth(b *types.Basic) int {
	switch b.Kind() {
	case types.Int8, types.Uint8:
		return 8
	case types.Int16, types.Uint16:
		return 16
	case types.Int32, types.Uint32, types.UntypedRune:
		return 32
	default:
		return 64
	}
}

func isSigned(t types.Type) bool {
	b, ok := t.Underlying().(*types.Basic)
	return ok && b.Info()&types.IsInteger != 0 && b.Info()&types.IsUnsigned == 0
}

// field i of struct value (materialising lazy zero)
func (in *Interp) field(s *StructV, i int) Value {
	if v := s.F[i]; v != nil {
		return v
	}
	return in.zero(s.T.Field(i).Type())
}

func (in *Interp) elem(a *ArrayV, i int) Value {
	if i < 0 || i >= len(a.Elems) {
		panic(goPanic("index out of range"))
	}
	if v := a.Elems[i]; v != nil {
		return v
	}
	return in.zero(a.Elem)
}

// navigate into an aggregate value by path
func (in *Interp) getPath(v Value, path []int) Value {
	for _, i := range path {
		switch a := v.(type) {
		case *StructV:
			v = in.field(a, i)
		case *ArrayV:
			v = in.elem(a, i)
		default:
			panic(fmt.Sprintf("getPath: not an aggregate: %T", v))
		}
	}
	return v
}

func (in *Interp) setPath(v Value, path []int, nv Value) Value {
	if len(path) == 0 {
		return nv
	}
	i := path[0]
	switch a := v.(type) {
	case *StructV:
		c := &StructV{T: a.T, F: append([]Value(nil), a.F...)}
		c.F[i] = in.setPath(in.field(a, i), path[1:], nv)
		return c
	case *ArrayV:
		if i < 0 || i >= len(a.Elems) {
			panic(goPanic("index out of range"))
		}
		c := &ArrayV{Elem: a.Elem, Elems: append([]Value(nil), a.Elems...)}
		c.Elems[i] = in.setPath(in.elem(a, i), path[1:], nv)
		return c
	default:
		panic(fmt.Sprintf("setPath: not an aggregate: %T", v))
	}
}

func (in *Interp) load(p Ptr) Value {
	if p.Base == nil {
		panic(goPanic("nil pointer dereference"))
	}
	in.noteAccessP(p.Base, p.Path, false)
	return in.getPath(p.Base.V, p.Path)
}

func (in *Interp) store(p Ptr, v Value) {
	if p.Base == nil {
		panic(goPanic("nil pointer dereference"))
	}
	in.noteAccessP(p.Base, p.Path, true)
	p.Base.V = in.setPath(p.Base.V, p.Path, v)
}

func (in *Interp) newCell(t types.Type, v Value, tag string) *Cell {
	in.st.nextID++
	return &Cell{id: in.st.nextID, V: v, T: t, tag: tag}
}

func ptrEq(a, b Ptr) bool {
	if a.Base != b.Base || len(a.Path) != len(b.Path) {
		return false
	}
	for i := range a.Path {
		if a.Path[i] != b.Path[i] {
			return false
		}
	}
	return true
}

func subPath(p Ptr, i int) Ptr {
	np := make([]int, len(p.Path)+1)
	copy(np, p.Path)
	np[len(p.Path)] = i
	return Ptr{p.Base, np}
}

// ---- equality ----

// equal returns a Bool term for Go's == on two values of the same static type.
func (in *Interp) equal(a, b Value) *Term {
	tc := in.tc
	switch x := a.(type) {
	case nil:
		return tc.Bool(b == nil)
	case *Term:
		y, ok := b.(*Term)
		if !ok {
			return tc.False
		}
		if x.sort != y.sort {
			return tc.False
		}
		return tc.Eq(x, y)
	case FloatV:
		y, ok := b.(FloatV)
		return tc.Bool(ok && x.F == y.F)
	case Ptr:
		y, ok := b.(Ptr)
		return tc.Bool(ok && ptrEq(x, y))
	case ChanV:
		y, ok := b.(ChanV)
		return tc.Bool(ok && x.C == y.C)
	case MapV:
		y, ok := b.(MapV)
		return tc.Bool(ok && x.M == y.M)
	case SliceV:
		y, ok := b.(SliceV)
		// only comparison with nil is legal in Go
		return tc.Bool(ok && x.Arr == nil && y.Arr == nil)
	case *FuncV:
		y, ok := b.(*FuncV)
		return tc.Bool(ok && x == nil && y == nil)
	case IfaceV:
		y, ok := b.(IfaceV)
		if !ok {
			return tc.False
		}
		if x.T == nil || y.T == nil {
			return tc.Bool(x.T == nil && y.T == nil)
		}
		if !types.Identical(x.T, y.T) {
			return tc.False
		}
		if !types.Comparable(x.T) {
			panic(goPanic("runtime error: comparing uncomparable type " + x.T.String()))
		}
		return in.equal(x.V, y.V)
	case *StructV:
		y, ok := b.(*StructV)
		if !ok {
			return tc.False
		}
		var cs []*Term
		for i := range x.F {
			cs = append(cs, in.equal(in.field(x, i), in.field(y, i)))
		}
		return tc.And(cs...)
	case *ArrayV:
		y, ok := b.(*ArrayV)
		if !ok || len(x.Elems) != len(y.Elems) {
			return tc.False
		}
		var cs []*Term
		for i := range x.Elems {
			cs = append(cs, in.equal(in.elem(x, i), in.elem(y, i)))
		}
		return tc.And(cs...)
	case *ErrObj:
		y, ok := b.(*ErrObj)
		return tc.Bool(ok && x == y)
	case *CtxObj:
		y, ok := b.(*CtxObj)
		return tc.Bool(ok && x == y)
	}
	panic(unsupported(fmt.Sprintf("equality on %T", a)))
}

// ---- printing (traces, samples) ----

func (in *Interp) show(v Value) string {
	return in.showD(v, 0)
}

func (in *Interp) showD(v Value, d int) string {
	if d > 4 {
		return "…"
	}
	switch x := v.(type) {
	case nil:
		return "nil"
	case *Term:
		if x.op == OpConstStr {
			return fmt.Sprintf("%q", x.str)
		}
		if x.op == OpConstBV {
			return fmt.Sprint(sext(x.bv, x.sort))
		}
		s := in.tc.SMT(x)
		if len(s) > 80 {
			s = s[:80] + "…"
		}
		return s
	case FloatV:
		return fmt.Sprint(x.F)
	case Ptr:
		if x.Base == nil {
			return "nil"
		}
		return fmt.Sprintf("&c%d%v", x.Base.id, x.Path)
	case *StructV:
		var ps []string
		for i, f := range x.F {
			if f != nil {
				ps = append(ps, x.T.Field(i).Name()+":"+in.showD(f, d+1))
			}
		}
		return "{" + strings.Join(ps, " ") + "}"
	case *ArrayV:
		return fmt.Sprintf("[%d]…", len(x.Elems))
	case SliceV:
		if x.Arr == nil {
			return "[]nil"
		}
		var ps []string
		arr := x.Arr.V.(*ArrayV)
		for i := 0; i < x.Len && i < 6; i++ {
			ps = append(ps, in.showD(in.elem(arr, x.Off+i), d+1))
		}
		return "[" + strings.Join(ps, " ") + "]"
	case MapV:
		if x.M == nil {
			return "map(nil)"
		}
		return fmt.Sprintf("map#%d(n=%d)", x.M.id, x.M.N)
	case ChanV:
		if x.C == nil {
			return "chan(nil)"
		}
		return fmt.Sprintf("chan#%d", x.C.id)
	case IfaceV:
		if x.T == nil {
			return "nil"
		}
		return fmt.Sprintf("%s(%s)", shortType(x.T), in.showD(x.V, d+1))
	case *FuncV:
		if x == nil {
			return "func(nil)"
		}
		if x.Fn != nil {
			return "func " + x.Fn.String()
		}
		return "func<" + x.Intrinsic + ">"
	case TupleV:
		var ps []string
		for _, e := range x {
			ps = append(ps, in.showD(e, d+1))
		}
		return "(" + strings.Join(ps, ", ") + ")"
	case *ErrObj:
		return fmt.Sprintf("error(%q)", x.Msg)
	case *CtxObj:
		return fmt.Sprintf("ctx#%d", x.id)
	}
	return fmt.Sprintf("%T", v)
}

func shortType(t types.Type) string {
	s := t.String()
	if i := strings.LastIndex(s, "/"); i >= 0 {
		pre := ""
		for _, ch := range s[:i] {
			if ch == '*' || ch == '[' || ch == ']' {
				pre += string(ch)
			} else {
				break
			}
		}
		return pre + s[i+1:]
	}
	return s
}

// ---- control-flow signals (Go panics used inside the engine) ----

type goPanicSig struct{ msg string }     // a Go run-time panic in the interpreted program
type unsupportedSig struct{ msg string } // construct outside the interpreter's subset
type pathEndSig struct{ reason string }  // abandon current path (assume false, infeasible, pruned)

func goPanic(msg string) goPanicSig          { return goPanicSig{msg} }
func unsupported(msg string) unsupportedSig  { return unsupportedSig{msg} }
