#!/usr/bin/env python3
"""Generates the identical C20 harness text for the 12 typed packages (harness/types__<pkg>/zz_verif_c20.go)."""
import os
HERE=os.path.dirname(os.path.abspath(__file__))
T = {
 # pkg: (import alias line, own type, group accessor, resource)
 "pod": ('corev1 "k8s.io/api/core/v1"', "corev1.Pod", "core/v1", "pods"),
 "service": ('corev1 "k8s.io/api/core/v1"', "corev1.Service", "core/v1", "services"),
 "secret": ('corev1 "k8s.io/api/core/v1"', "corev1.Secret", "core/v1", "secrets"),
 "node": ('corev1 "k8s.io/api/core/v1"', "corev1.Node", "core/v1", "nodes"),
 "event": ('corev1 "k8s.io/api/core/v1"', "corev1.Event", "core/v1", "events"),
 "replicationcontroller": ('corev1 "k8s.io/api/core/v1"', "corev1.ReplicationController", "core/v1", "replicationcontrollers"),
 "ingress": ('netv1beta1 "k8s.io/api/networking/v1beta1"', "netv1beta1.Ingress", "networking.k8s.io/v1beta1", "ingresses"),
 "job": ('batchv1 "k8s.io/api/batch/v1"', "batchv1.Job", "batch/v1", "jobs"),
 "daemonset": ('appsv1 "k8s.io/api/apps/v1"', "appsv1.DaemonSet", "apps/v1", "daemonsets"),
 "deployment": ('appsv1 "k8s.io/api/apps/v1"', "appsv1.Deployment", "apps/v1", "deployments"),
 "replicaset": ('appsv1 "k8s.io/api/apps/v1"', "appsv1.ReplicaSet", "apps/v1", "replicasets"),
 "statefulset": ('appsv1 "k8s.io/api/apps/v1"', "appsv1.StatefulSet", "apps/v1", "statefulsets"),
}
TEMPLATE = open(os.path.join(HERE, "harness", "c20_template.go.txt")).read()
for pkg,(imp,own,group,res) in T.items():
    d=os.path.join(HERE,"harness","types__"+pkg)
    os.makedirs(d,exist_ok=True)
    foreign = "vForeign"
    extra = '' if imp.startswith('corev1') else '\tcorev1 "k8s.io/api/core/v1"\n'
    s = TEMPLATE.replace("PKG",pkg).replace("OWNIMPORT",imp).replace("EXTRAIMPORT",extra).replace("OWN",own).replace("GROUP",group).replace("RESOURCE",res)
    if own=="corev1.ConfigMap": raise SystemExit
    open(os.path.join(d,"zz_verif_c20.go"),"w").write(s)
print("generated", len(T))
