//go:build verif

package client

// Verification-only capture of what the typed packages ask ForResource for
// (the engine redirects ForResource to VForResource; the REST request building
// of client-go is outside the interpretable subset).
var (
	VCalls   int
	VLastC   interface{}
	VLastRes string
	VLastNS  string
)

func VReset() { VCalls, VLastC, VLastRes, VLastNS = 0, nil, "", "" }

func VForResource(c restRequester, res string, ns string) Client {
	VCalls++
	VLastC, VLastRes, VLastNS = c, res, ns
	return nil
}
