//go:build verif

package filter

import (
	"github.com/boz/kcache/nsname"
	"github.com/boz/kcache/zzverif"
	corev1 "k8s.io/api/core/v1"
	metav1 "k8s.io/apimachinery/pkg/apis/meta/v1"
	"k8s.io/apimachinery/pkg/labels"
)

// ---- shared helpers for the filter harnesses (C17, C18)

// VSymFilter is an arbitrary pure comparable filter (uninterpreted function of ns/name/id).
type VSymFilter struct{ ID int }

func (f VSymFilter) Accept(o metav1.Object) bool {
	return zzverif.UFBool("leaf", f.ID, o.GetNamespace(), o.GetName())
}
func (f VSymFilter) Equals(other Filter) bool {
	o, ok := other.(VSymFilter)
	return ok && o.ID == f.ID
}

// VSymLabels builds a label map with n <= max symbolic pairs (keys may coincide).
func VSymLabels(tag string, max int) map[string]string {
	n := zzverif.NondetInt(tag+".n", 0, max)
	if n == 0 && zzverif.NondetInt(tag+".nil", 0, 1) == 1 {
		return nil
	}
	m := map[string]string{}
	if zzverif.Param("CL", 0) == 1 {
		// concrete label universe (2 keys x 2 values): lets code that builds strings from labels run concretely
		for i := 0; i < n; i++ {
			k := []string{"app", "tier"}[zzverif.NondetInt(tag+".ck", 0, 1)]
			m[k] = []string{"x", "y"}[zzverif.NondetInt(tag+".cv", 0, 1)]
		}
		return m
	}
	for i := 0; i < n; i++ {
		k := zzverif.NondetString(tag + ".k")
		zzverif.Assume(k != "") // label keys are never empty (label syntax)
		m[k] = zzverif.NondetString(tag + ".v")
	}
	return m
}

func VSymPod(tag string, maxLabels int) *corev1.Pod {
	return &corev1.Pod{ObjectMeta: metav1.ObjectMeta{
		Namespace: zzverif.NondetString(tag + ".ns"),
		Name:      zzverif.NondetString(tag + ".name"),
		Labels:    VSymLabels(tag+".labels", maxLabels),
	}}
}

// ---- reference semantics, written from the property statement

type vTerm struct {
	kind string // null all not and or leaf
	kids []*vTerm
	leaf int
}

func vGenTerm(depth int, nleaf *int) (Filter, *vTerm) {
	max := 5
	if depth <= 1 {
		max = 2
	}
	switch zzverif.NondetInt("term.kind", 0, max) {
	case 0:
		return Null(), &vTerm{kind: "null"}
	case 1:
		return All(), &vTerm{kind: "all"}
	case 2:
		id := *nleaf
		*nleaf++
		return VSymFilter{id}, &vTerm{kind: "leaf", leaf: id}
	case 3:
		f, t := vGenTerm(depth-1, nleaf)
		return Not(f), &vTerm{kind: "not", kids: []*vTerm{t}}
	default:
		isAnd := zzverif.NondetInt("term.and", 0, 1) == 1
		n := zzverif.NondetInt("term.arity", 0, zzverif.Param("ARITY", 2))
		var fs []Filter
		var ts []*vTerm
		for i := 0; i < n; i++ {
			f, t := vGenTerm(depth-1, nleaf)
			fs = append(fs, f)
			ts = append(ts, t)
		}
		if isAnd {
			return And(fs...), &vTerm{kind: "and", kids: ts}
		}
		return Or(fs...), &vTerm{kind: "or", kids: ts}
	}
}

func vRefEval(t *vTerm, o metav1.Object) bool {
	switch t.kind {
	case "null":
		return true
	case "all":
		return false
	case "leaf":
		return zzverif.UFBool("leaf", t.leaf, o.GetNamespace(), o.GetName())
	case "not":
		return zzverif.Not(vRefEval(t.kids[0], o))
	case "and":
		r := true
		for _, k := range t.kids {
			r = zzverif.And(r, vRefEval(k, o))
		}
		return r
	default:
		r := false
		for _, k := range t.kids {
			r = zzverif.Or(r, vRefEval(k, o))
		}
		return r
	}
}

// VerifC18_Combinators: Null/All/Not/And/Or over arbitrary leaves are the boolean connectives.
func VerifC18_Combinators() {
	nleaf := 0
	f, t := vGenTerm(zzverif.Param("DEPTH", 3), &nleaf)
	o := VSymPod("o", 0)
	got := f.Accept(o)
	zzverif.Assert(zzverif.Iff(got, vRefEval(t, o)), "C18/semantics/combinators")
	zzverif.Assert(zzverif.Iff(f.Accept(o), got), "C18/pure/combinators")
	zzverif.Reach("C18/combinators")
}

// VerifC18_NSName: some entry matches namespace and name, an empty field is a wildcard.
func VerifC18_NSName() {
	n := zzverif.NondetInt("ids.n", 0, zzverif.Param("IDS", 3))
	var ids []nsname.NSName
	for i := 0; i < n; i++ {
		id := nsname.New(zzverif.NondetString("id.ns"), zzverif.NondetString("id.name"))
		// entries with both fields empty are outside the contract
		zzverif.Assume(zzverif.Not(zzverif.And(id.Namespace == "", id.Name == "")))
		ids = append(ids, id)
	}
	f := NSName(ids...)
	o := VSymPod("o", 0)
	got := f.Accept(o)
	want := false
	for _, id := range ids {
		want = zzverif.Or(want, zzverif.And(
			zzverif.Or(id.Namespace == "", id.Namespace == o.Namespace),
			zzverif.Or(id.Name == "", id.Name == o.Name)))
	}
	zzverif.Assert(zzverif.Iff(got, want), "C18/semantics/nsname")
	zzverif.Assert(zzverif.Iff(f.Accept(o), got), "C18/pure/nsname")
	if got {
		zzverif.Reach("C18/nsname/accept")
	} else {
		zzverif.Reach("C18/nsname/reject")
	}
}

func vHas(m map[string]string, k string) bool { _, ok := m[k]; return ok }

// VerifC18_Labels: Labels(match) accepts iff match is a subset of the object's labels.
func VerifC18_Labels() {
	match := VSymLabels("match", zzverif.Param("PAIRS", 2))
	o := VSymPod("o", zzverif.Param("OLABELS", 2))
	f := Labels(match)
	got := f.Accept(o)
	want := true
	for k, v := range match {
		ov, has := o.Labels[k]
		want = zzverif.And(want, has, ov == v)
	}
	zzverif.Assert(zzverif.Iff(got, want), "C18/semantics/labels")
	zzverif.Assert(zzverif.Iff(f.Accept(o), got), "C18/pure/labels")
	if got {
		zzverif.Reach("C18/labels/accept")
	} else {
		zzverif.Reach("C18/labels/reject")
	}
}

func VSymLabelSelector(tag string) *metav1.LabelSelector {
	if zzverif.NondetInt(tag+".nil", 0, 1) == 1 {
		return nil
	}
	ls := &metav1.LabelSelector{MatchLabels: VSymLabels(tag+".ml", zzverif.Param("MATCHLABELS", 1))}
	ne := zzverif.NondetInt(tag+".nexpr", 0, zzverif.Param("EXPRS", 2))
	for i := 0; i < ne; i++ {
		var op metav1.LabelSelectorOperator
		nvals := 0
		switch zzverif.NondetInt(tag+".op", 0, 3) {
		case 0:
			op = metav1.LabelSelectorOpIn
			nvals = zzverif.NondetInt(tag+".nvals", 1, zzverif.Param("VALS", 2))
		case 1:
			op = metav1.LabelSelectorOpNotIn
			nvals = zzverif.NondetInt(tag+".nvals", 1, zzverif.Param("VALS", 2))
		case 2:
			op = metav1.LabelSelectorOpExists
		default:
			op = metav1.LabelSelectorOpDoesNotExist
		}
		e := metav1.LabelSelectorRequirement{Key: zzverif.NondetString(tag + ".ekey"), Operator: op}
		zzverif.Assume(e.Key != "")
		for j := 0; j < nvals; j++ {
			e.Values = append(e.Values, zzverif.NondetString(tag+".eval"))
		}
		ls.MatchExpressions = append(ls.MatchExpressions, e)
	}
	return ls
}

// VRefLabelSelector: Kubernetes label-selector semantics, from the API documentation.
func VRefLabelSelector(ls *metav1.LabelSelector, lbl map[string]string) bool {
	if ls == nil {
		return false // a nil selector selects nothing
	}
	want := true // an empty selector selects everything
	for k, v := range ls.MatchLabels {
		ov, has := lbl[k]
		want = zzverif.And(want, has, ov == v)
	}
	for _, e := range ls.MatchExpressions {
		ov, has := lbl[e.Key]
		in := false
		for _, v := range e.Values {
			in = zzverif.Or(in, ov == v)
		}
		switch e.Operator {
		case metav1.LabelSelectorOpIn:
			want = zzverif.And(want, has, in)
		case metav1.LabelSelectorOpNotIn:
			want = zzverif.And(want, zzverif.Or(zzverif.Not(has), zzverif.Not(in)))
		case metav1.LabelSelectorOpExists:
			want = zzverif.And(want, has)
		default:
			want = zzverif.And(want, zzverif.Not(has))
		}
	}
	return want
}

// VerifC18_LabelSelector: LabelSelector and Selector follow Kubernetes selector semantics.
func VerifC18_LabelSelector() {
	ls := VSymLabelSelector("sel")
	o := VSymPod("o", zzverif.Param("OLABELS", 2))
	f := LabelSelector(ls)
	got := f.Accept(o)
	zzverif.Assert(zzverif.Iff(got, VRefLabelSelector(ls, o.Labels)), "C18/semantics/labelselector")
	zzverif.Assert(zzverif.Iff(f.Accept(o), got), "C18/pure/labelselector")
	if got {
		zzverif.Reach("C18/labelselector/accept")
	} else {
		zzverif.Reach("C18/labelselector/reject")
	}
}

// VerifC18_Selector: Selector() wraps any labels.Selector unchanged.
func VerifC18_Selector() {
	o := VSymPod("o", 2)
	zzverif.Assert(Selector(labels.Everything()).Accept(o), "C18/semantics/selector-everything")
	zzverif.Assert(!Selector(labels.Nothing()).Accept(o), "C18/semantics/selector-nothing")
	set := VSymLabels("set", 2)
	s := labels.SelectorFromSet(set)
	got := Selector(s).Accept(o)
	zzverif.Assert(zzverif.Iff(got, s.Matches(labels.Set(o.Labels))), "C18/semantics/selector-delegates")
	zzverif.Reach("C18/selector")
}

// VerifC18_History: Accept is a function of the object alone. The verdict on o is the
// reference verdict whatever object h the same filter instance was asked about before
// (and asking again about h afterwards still gives h's reference verdict).
func VerifC18_History() {
	nl := zzverif.Param("OLABELS", 2)
	h := VSymPod("h", nl)
	o := VSymPod("o", nl)
	var f Filter
	var ref func(metav1.Object) bool
	subset := func(match map[string]string) func(metav1.Object) bool {
		return func(x metav1.Object) bool {
			want := true
			for k, v := range match {
				ov, has := x.GetLabels()[k]
				want = zzverif.And(want, has, ov == v)
			}
			return want
		}
	}
	switch zzverif.NondetInt("hist.kind", 0, 3) {
	case 0:
		match := VSymLabels("match", zzverif.Param("PAIRS", 2))
		f, ref = Labels(match), subset(match)
	case 1:
		ls := VSymLabelSelector("sel")
		f, ref = LabelSelector(ls), func(x metav1.Object) bool { return VRefLabelSelector(ls, x.GetLabels()) }
	case 2:
		set := VSymLabels("set", zzverif.Param("PAIRS", 2))
		f, ref = Selector(labels.SelectorFromSet(set)), subset(set)
	default:
		m1 := VSymLabels("m1", 1)
		m2 := VSymLabels("m2", 1)
		r1, r2 := subset(m1), subset(m2)
		f = And(Labels(m1), Not(Labels(m2)))
		ref = func(x metav1.Object) bool { return zzverif.And(r1(x), zzverif.Not(r2(x))) }
	}
	first := f.Accept(h)
	zzverif.Assert(zzverif.Iff(first, ref(h)), "C18/history/first")
	zzverif.Assert(zzverif.Iff(f.Accept(o), ref(o)), "C18/history/second")
	zzverif.Assert(zzverif.Iff(f.Accept(h), first), "C18/history/again")
	zzverif.Reach("C18/history")
}
