//go:build verif

package join

import (
	"strconv"

	"context"

	logutil "github.com/boz/go-logutil"
	"github.com/boz/kcache"
	"github.com/boz/kcache/filter"
	"github.com/boz/kcache/types/daemonset"
	"github.com/boz/kcache/types/deployment"
	"github.com/boz/kcache/types/ingress"
	"github.com/boz/kcache/types/job"
	"github.com/boz/kcache/types/pod"
	"github.com/boz/kcache/types/replicaset"
	"github.com/boz/kcache/types/replicationcontroller"
	"github.com/boz/kcache/types/service"
	"github.com/boz/kcache/types/statefulset"
	"github.com/boz/kcache/zzverif"
	appsv1 "k8s.io/api/apps/v1"
	batchv1 "k8s.io/api/batch/v1"
	corev1 "k8s.io/api/core/v1"
	netv1beta1 "k8s.io/api/networking/v1beta1"
	metav1 "k8s.io/apimachinery/pkg/apis/meta/v1"
)

// C09 (wiring link): the real join functions, typed monitors and kcache.monitor
// between fake untyped controllers. The typed objects are the real typed
// wrappers over these fakes.

type vNopLog struct{}

func (l vNopLog) WithComponent(string) logutil.Log                     { return l }
func (l vNopLog) Trace(string, ...interface{}) string                  { return "" }
func (l vNopLog) Un(string)                                            {}
func (l vNopLog) Debugf(string, ...interface{})                        {}
func (l vNopLog) Infof(string, ...interface{})                         {}
func (l vNopLog) Warnf(string, ...interface{})                         {}
func (l vNopLog) Errorf(string, ...interface{})                        {}
func (l vNopLog) Fatalf(string, ...interface{})                        {}
func (l vNopLog) ErrWarn(err error, _ string, _ ...interface{}) error  { return err }
func (l vNopLog) ErrFatal(err error, _ string, _ ...interface{}) error { return err }
func (l vNopLog) Err(err error, _ string, _ ...interface{}) error      { return err }

func VLogFromCtx(ctx context.Context) logutil.Log { return vNopLog{} }

// vSub: a fake subscription (like kcache's real one: Close closes Events and Done).
type vSub struct {
	c       *vCtl
	evch    chan kcache.Event
	donech  chan struct{}
	closech chan struct{}
}

func (s *vSub) Cache() kcache.CacheReader   { return s.c }
func (s *vSub) Ready() <-chan struct{}      { return s.c.readych }
func (s *vSub) Events() <-chan kcache.Event { return s.evch }
func (s *vSub) Done() <-chan struct{}       { return s.donech }
func (s *vSub) Error() error                { return nil }
func (s *vSub) Close() {
	select {
	case s.closech <- struct{}{}:
	default:
	}
}

// vCtl: a fake untyped (filter) controller: content guarded by a lock channel,
// subscriptions handed out on request, Refilter calls recorded.
type vCtl struct {
	lock     chan struct{} // capacity 1
	content  []metav1.Object
	readych  chan struct{}
	donech   chan struct{}
	closech  chan struct{}
	subs     chan *vSub         // subscriptions handed out
	clones   chan *vCtl         // for-filter clones handed out
	refilter chan filter.Filter // Refilter arguments, in order
	closes   chan struct{}      // Close() calls
}

func newCtl() *vCtl {
	c := &vCtl{lock: make(chan struct{}, 1), readych: make(chan struct{}), donech: make(chan struct{}), closech: make(chan struct{}, 1),
		subs: make(chan *vSub, 4), clones: make(chan *vCtl, 4), refilter: make(chan filter.Filter, 16), closes: make(chan struct{}, 4)}
	go func() {
		<-c.closech
		close(c.donech)
	}()
	return c
}

func (c *vCtl) set(objs []metav1.Object) {
	c.lock <- struct{}{}
	c.content = objs
	<-c.lock
}
func (c *vCtl) List() ([]metav1.Object, error) {
	c.lock <- struct{}{}
	l := append([]metav1.Object{}, c.content...)
	<-c.lock
	return l, nil
}
func (c *vCtl) Get(ns, name string) (metav1.Object, error)       { return nil, nil }
func (c *vCtl) GetObject(o metav1.Object) (metav1.Object, error) { return nil, nil }
func (c *vCtl) Cache() kcache.CacheReader                        { return c }
func (c *vCtl) Ready() <-chan struct{}                           { return c.readych }
func (c *vCtl) Done() <-chan struct{}                            { return c.donech }
func (c *vCtl) Error() error                                     { return nil }
func (c *vCtl) Close() {
	c.closes <- struct{}{}
	select {
	case c.closech <- struct{}{}:
	default:
	}
}
func (c *vCtl) Subscribe() (kcache.Subscription, error) {
	s := &vSub{c: c, evch: make(chan kcache.Event, 8), donech: make(chan struct{}), closech: make(chan struct{}, 1)}
	go func() {
		<-s.closech
		close(s.evch)
		close(s.donech)
	}()
	c.subs <- s
	return s, nil
}
func (c *vCtl) SubscribeWithFilter(filter.Filter) (kcache.FilterSubscription, error) { panic("unused") }
func (c *vCtl) SubscribeForFilter() (kcache.FilterSubscription, error)               { panic("unused") }
func (c *vCtl) Clone() (kcache.Controller, error)                                    { panic("unused") }
func (c *vCtl) CloneWithFilter(filter.Filter) (kcache.FilterController, error)       { panic("unused") }
func (c *vCtl) CloneForFilter() (kcache.FilterController, error) {
	n := newCtl()
	c.clones <- n
	return n, nil
}
func (c *vCtl) Refilter(f filter.Filter) error {
	c.refilter <- f
	return nil
}

func lastFilter(c *vCtl) (filter.Filter, int) {
	var last filter.Filter
	n := 0
	for {
		select {
		case f := <-c.refilter:
			last = f
			n++
			continue
		default:
		}
		return last, n
	}
}

// one join under test, abstracted over the source type
type vJoin struct {
	src     *vCtl
	dstbase *vCtl
	mkSrc   func(i int) metav1.Object                // i-th symbolic source object
	want    func(objs []metav1.Object) filter.Filter // the selection rule applied to a source content
	run     func(src, dst *vCtl) (interface {
		Close()
		Done() <-chan struct{}
	}, error)
	ref func(objs []metav1.Object, p *corev1.Pod) bool // independent selection rule (optional)
}

func symSel(tag string) map[string]string {
	if zzverif.Param("CL", 0) == 1 {
		return map[string]string{"app": []string{"x", "y"}[zzverif.NondetInt(tag+".capp", 0, 1)]}
	}
	return map[string]string{"app": zzverif.NondetString(tag + ".app")}
}

func vRunJoin(j vJoin, P string) {
	src, dstbase := newCtl(), newCtl()
	res, err := j.run(src, dstbase)
	zzverif.Assert(err == nil, "harness/join")
	clone := <-dstbase.clones // the for-filter clone the join refilters

	var content []metav1.Object
	n0 := zzverif.NondetInt("src.n0", 0, 1)
	for i := 0; i < n0; i++ {
		content = append(content, j.mkSrc(i))
	}
	src.set(content)
	// nothing may be refiltered before the source is ready
	zzverif.Quiesce()
	_, n := lastFilter(clone)
	zzverif.Assert(n == 0, P+"/ready-after-both/no-refilter-before-source-ready")
	close(src.readych)
	zzverif.Quiesce()
	f, n := lastFilter(clone)
	zzverif.Assert(n >= 1, P+"/refilter-tracks-source/initial")
	pd := filter.VSymPod("cand", 1)
	if n >= 1 {
		zzverif.Assert(filter.FiltersEqual(f, j.want(content)), P+"/refilter-tracks-source/initial")
		zzverif.Assert(zzverif.Iff(f.Accept(pd), j.want(content).Accept(pd)), P+"/refilter-tracks-source/initial")
	}
	sub := <-src.subs
	K := zzverif.Param("K", 2)
	for k := 0; k < K; k++ {
		// a source change: appear / change selector / disappear
		var ev kcache.Event
		switch zzverif.NondetInt("change", 0, 2) {
		case 0:
			o := j.mkSrc(10 + k)
			content = append(append([]metav1.Object{}, content...), o)
			ev = kcache.NewEvent(kcache.EventTypeCreate, o)
		case 1:
			if len(content) == 0 {
				zzverif.Assume(false)
			}
			o := j.mkSrc(20 + k)
			content = append(append([]metav1.Object{}, content[:len(content)-1]...), o)
			ev = kcache.NewEvent(kcache.EventTypeUpdate, o)
		default:
			if len(content) == 0 {
				zzverif.Assume(false)
			}
			o := content[len(content)-1]
			content = append([]metav1.Object{}, content[:len(content)-1]...)
			ev = kcache.NewEvent(kcache.EventTypeDelete, o)
		}
		distinctKeys(content)
		src.set(content)
		sub.evch <- ev
		zzverif.Quiesce()
		f, n := lastFilter(clone)
		zzverif.Assert(n >= 1, P+"/refilter-tracks-source/on-change")
		if n >= 1 {
			zzverif.Assert(filter.FiltersEqual(f, j.want(content)), P+"/refilter-tracks-source/on-change")
			zzverif.Assert(zzverif.Iff(f.Accept(pd), j.want(content).Accept(pd)), P+"/refilter-tracks-source/on-change")
			if j.ref != nil {
				zzverif.Assert(zzverif.Iff(f.Accept(pd), j.ref(content, pd)), P+"/selects-matched")
			}
		}
		zzverif.Reach(P + "/changed")
	}
	// closing the join result stops everything the join created, nothing else
	res.Close()
	zzverif.Quiesce()
	zzverif.Assert(vIsClosed(clone.donech), P+"/close-stops-join/result-done")
	zzverif.Assert(vIsClosed(sub.donech), P+"/close-stops-join/monitor-subscription-closed")
	zzverif.Assert(!vIsClosed(src.donech), P+"/close-stops-join/source-left-running")
	zzverif.Assert(!vIsClosed(dstbase.donech), P+"/close-stops-join/destination-left-running")
	zzverif.Assert(len(src.closes) == 0 && len(dstbase.closes) == 0, P+"/close-stops-join/bases-not-closed")
	zzverif.Assert(zzverif.LiveLibGoroutines() == 0, P+"/close-stops-join/goroutines-exit")
	zzverif.Reach(P + "/closed")
}

// a cache never holds two objects with the same namespace/name
func distinctKeys(objs []metav1.Object) {
	for i := range objs {
		for j := 0; j < i; j++ {
			zzverif.Assume(zzverif.Not(zzverif.And(objs[i].GetNamespace() == objs[j].GetNamespace(), objs[i].GetName() == objs[j].GetName())))
		}
	}
}

func vIsClosed(ch <-chan struct{}) bool {
	select {
	case <-ch:
		return true
	default:
		return false
	}
}

type closer interface {
	Close()
	Done() <-chan struct{}
}

func om(i int) metav1.ObjectMeta {
	m := metav1.ObjectMeta{Namespace: zzverif.NondetString("src.ns"), Name: zzverif.NondetString("src.name")}
	zzverif.Assume(m.Namespace != "") // namespaced API objects always carry a namespace
	return m
}

func VerifC09_ServicePods() {
	vRunJoin(vJoin{
		mkSrc: func(i int) metav1.Object {
			return &corev1.Service{ObjectMeta: om(i), Spec: corev1.ServiceSpec{Selector: symSel("src")}}
		},
		want: func(objs []metav1.Object) filter.Filter {
			var xs []*corev1.Service
			for _, o := range objs {
				xs = append(xs, o.(*corev1.Service))
			}
			return service.PodsFilter(xs...)
		},
		run: func(src, dst *vCtl) (interface {
			Close()
			Done() <-chan struct{}
		}, error) {
			return ServicePods(context.Background(), service.VNewController(src), pod.VNewController(dst))
		},
		// the join selects the pods of a service's namespace that carry its (non-empty) selector
		ref: func(objs []metav1.Object, p *corev1.Pod) bool {
			r := false
			for _, o := range objs {
				svc := o.(*corev1.Service)
				if len(svc.Spec.Selector) == 0 {
					continue
				}
				m := true
				for k, v := range svc.Spec.Selector {
					pv, has := p.Labels[k]
					m = zzverif.And(m, has, pv == v)
				}
				r = zzverif.Or(r, zzverif.And(svc.Namespace == p.Namespace, m))
			}
			return r
		},
	}, "C09/service-pods")
}

func VerifC09_RCPods() {
	vRunJoin(vJoin{
		mkSrc: func(i int) metav1.Object {
			return &corev1.ReplicationController{ObjectMeta: om(i), Spec: corev1.ReplicationControllerSpec{Selector: symSel("src")}}
		},
		want: func(objs []metav1.Object) filter.Filter {
			var xs []*corev1.ReplicationController
			for _, o := range objs {
				xs = append(xs, o.(*corev1.ReplicationController))
			}
			return replicationcontroller.PodsFilter(xs...)
		},
		run: func(src, dst *vCtl) (interface {
			Close()
			Done() <-chan struct{}
		}, error) {
			return RCPods(context.Background(), replicationcontroller.VNewController(src), pod.VNewController(dst))
		},
	}, "C09/rc-pods")
}

func lsel() *metav1.LabelSelector { return &metav1.LabelSelector{MatchLabels: symSel("src")} }

func VerifC09_RSPods() {
	vRunJoin(vJoin{
		mkSrc: func(i int) metav1.Object {
			return &appsv1.ReplicaSet{ObjectMeta: om(i), Spec: appsv1.ReplicaSetSpec{Selector: lsel()}}
		},
		want: func(objs []metav1.Object) filter.Filter {
			var xs []*appsv1.ReplicaSet
			for _, o := range objs {
				xs = append(xs, o.(*appsv1.ReplicaSet))
			}
			return replicaset.PodsFilter(xs...)
		},
		run: func(src, dst *vCtl) (interface {
			Close()
			Done() <-chan struct{}
		}, error) {
			return RSPods(context.Background(), replicaset.VNewController(src), pod.VNewController(dst))
		},
	}, "C09/rs-pods")
}

func VerifC09_DeploymentPods() {
	vRunJoin(vJoin{
		mkSrc: func(i int) metav1.Object {
			return &appsv1.Deployment{ObjectMeta: om(i), Spec: appsv1.DeploymentSpec{Selector: lsel()}}
		},
		want: func(objs []metav1.Object) filter.Filter {
			var xs []*appsv1.Deployment
			for _, o := range objs {
				xs = append(xs, o.(*appsv1.Deployment))
			}
			return deployment.PodsFilter(xs...)
		},
		run: func(src, dst *vCtl) (interface {
			Close()
			Done() <-chan struct{}
		}, error) {
			return DeploymentPods(context.Background(), deployment.VNewController(src), pod.VNewController(dst))
		},
	}, "C09/deployment-pods")
}

func VerifC09_DaemonSetPods() {
	vRunJoin(vJoin{
		mkSrc: func(i int) metav1.Object {
			return &appsv1.DaemonSet{ObjectMeta: om(i), Spec: appsv1.DaemonSetSpec{Selector: lsel()}}
		},
		want: func(objs []metav1.Object) filter.Filter {
			var xs []*appsv1.DaemonSet
			for _, o := range objs {
				xs = append(xs, o.(*appsv1.DaemonSet))
			}
			return daemonset.PodsFilter(xs...)
		},
		run: func(src, dst *vCtl) (interface {
			Close()
			Done() <-chan struct{}
		}, error) {
			return DaemonSetPods(context.Background(), daemonset.VNewController(src), pod.VNewController(dst))
		},
	}, "C09/daemonset-pods")
}

func VerifC09_StatefulSetPods() {
	vRunJoin(vJoin{
		mkSrc: func(i int) metav1.Object {
			return &appsv1.StatefulSet{ObjectMeta: om(i), Spec: appsv1.StatefulSetSpec{Selector: lsel()}}
		},
		want: func(objs []metav1.Object) filter.Filter {
			var xs []*appsv1.StatefulSet
			for _, o := range objs {
				xs = append(xs, o.(*appsv1.StatefulSet))
			}
			return statefulset.PodsFilter(xs...)
		},
		run: func(src, dst *vCtl) (interface {
			Close()
			Done() <-chan struct{}
		}, error) {
			return StatefulSetPods(context.Background(), statefulset.VNewController(src), pod.VNewController(dst))
		},
	}, "C09/statefulset-pods")
}

func VerifC09_JobPods() {
	vRunJoin(vJoin{
		mkSrc: func(i int) metav1.Object {
			return &batchv1.Job{ObjectMeta: om(i), Spec: batchv1.JobSpec{Selector: lsel()}}
		},
		want: func(objs []metav1.Object) filter.Filter {
			var xs []*batchv1.Job
			for _, o := range objs {
				xs = append(xs, o.(*batchv1.Job))
			}
			return job.PodsFilter(xs...)
		},
		run: func(src, dst *vCtl) (interface {
			Close()
			Done() <-chan struct{}
		}, error) {
			return JobPods(context.Background(), job.VNewController(src), pod.VNewController(dst))
		},
	}, "C09/job-pods")
}

func VerifC09_IngressServices() {
	vRunJoin(vJoin{
		mkSrc: func(i int) metav1.Object {
			return &netv1beta1.Ingress{ObjectMeta: om(i), Spec: netv1beta1.IngressSpec{Backend: &netv1beta1.IngressBackend{ServiceName: zzverif.NondetString("src.backend")}}}
		},
		want: func(objs []metav1.Object) filter.Filter {
			var xs []*netv1beta1.Ingress
			for _, o := range objs {
				xs = append(xs, o.(*netv1beta1.Ingress))
			}
			return ingress.ServicesFilter(xs...)
		},
		run: func(src, dst *vCtl) (interface {
			Close()
			Done() <-chan struct{}
		}, error) {
			return IngressServices(context.Background(), ingress.VNewController(src), service.VNewController(dst))
		},
	}, "C09/ingress-services")
}

// VerifC09_IngressPods: the double join; closing the result must also stop the
// intermediate ingress->services join.
func VerifC09_IngressPods() {
	ing, svc, pods := newCtl(), newCtl(), newCtl()
	res, err := IngressPods(context.Background(), ingress.VNewController(ing), service.VNewController(svc), pod.VNewController(pods))
	zzverif.Assert(err == nil, "harness/join")
	svcClone := <-svc.clones  // the intermediate join's for-filter clone of the service base
	podClone := <-pods.clones // the result's for-filter clone of the pod base
	if zzverif.NondetInt("ready", 0, 1) == 1 {
		close(ing.readych)
		close(svcClone.readych)
	}
	zzverif.Quiesce()
	res.Close()
	zzverif.Quiesce()
	zzverif.Assert(vIsClosed(podClone.donech), "C09/double-join/result-done")
	zzverif.Assert(vIsClosed(svcClone.donech), "C09/double-join/intermediate-join-closed")
	zzverif.Assert(!vIsClosed(ing.donech) && !vIsClosed(svc.donech) && !vIsClosed(pods.donech), "C09/double-join/bases-left-running")
	zzverif.Assert(zzverif.LiveLibGoroutines() == 0, "C09/double-join/goroutines-exit")
	zzverif.Reach("C09/double-join")
}

// VerifC09_EndToEnd: the service->pods join over a REAL destination (publisher,
// for-filter clone = real filterSubscription with its cache actor, typed
// wrappers) and a fake source. Whatever the order of source readiness, source
// changes, destination readiness and pod arrivals, once everything is quiet the
// join is ready iff both sides are, and its cache holds exactly the pods
// selected by the CURRENT source objects.
func VerifC09_EndToEnd() {
	tree := kcache.VNewTree(16, false)
	src := newCtl()
	res, err := ServicePods(context.Background(), service.VNewController(src), pod.VNewController(tree.Publisher()))
	zzverif.Assert(err == nil, "harness/join")

	var pods []*corev1.Pod
	var content []metav1.Object
	srcReady := false
	var sub *vSub
	mkPod := func() {
		p := &corev1.Pod{ObjectMeta: metav1.ObjectMeta{Namespace: zzverif.NondetString("pod.ns"), Name: zzverif.NondetString("pod.name"), ResourceVersion: "1",
			Labels: map[string]string{"app": []string{"x", "y"}[zzverif.NondetInt("pod.app", 0, 1)]}}}
		for _, q := range pods {
			zzverif.Assume(zzverif.Not(zzverif.And(q.Namespace == p.Namespace, q.Name == p.Name)))
		}
		pods = append(pods, p)
		tree.Create(p)
	}
	mkSvc := func() metav1.Object {
		m := metav1.ObjectMeta{Namespace: zzverif.NondetString("src.ns"), Name: zzverif.NondetString("src.name")}
		zzverif.Assume(m.Namespace != "")
		return &corev1.Service{ObjectMeta: m, Spec: corev1.ServiceSpec{Selector: map[string]string{"app": []string{"x", "y"}[zzverif.NondetInt("src.app", 0, 1)]}}}
	}
	n0 := zzverif.NondetInt("pods.n0", 0, 1)
	for i := 0; i < n0; i++ {
		mkPod()
	}
	if zzverif.NondetInt("src.n0", 0, 1) == 1 {
		content = append(content, mkSvc())
	}
	src.set(content)

	K := zzverif.Param("KE", 3)
	for k := 0; k < K; k++ {
		switch zzverif.NondetInt("action", 0, 4) {
		case 4: // an existing pod is relabelled (a newer version of it with the other label value)
			if len(pods) == 0 {
				zzverif.Assume(false)
			}
			i := zzverif.NondetInt("relabel.i", 0, len(pods)-1)
			old := pods[i]
			other := "x"
			if old.Labels["app"] == "x" {
				other = "y"
			}
			np := &corev1.Pod{ObjectMeta: metav1.ObjectMeta{Namespace: old.Namespace, Name: old.Name, ResourceVersion: strconv.Itoa(2 + k),
				Labels: map[string]string{"app": other}}}
			pods[i] = np
			tree.Update(np)
			zzverif.Reach("C09/end-to-end/pod-relabelled")
		case 0:
			if srcReady {
				zzverif.Assume(false)
			}
			srcReady = true
			close(src.readych)
		case 1:
			if tree.IsReady() {
				zzverif.Assume(false)
			}
			tree.MakeReady()
		case 2:
			mkPod()
		default: // the source changes its selection: the only service is replaced / appears / disappears
			var ev kcache.Event
			if len(content) == 0 {
				o := mkSvc()
				content = []metav1.Object{o}
				ev = kcache.NewEvent(kcache.EventTypeCreate, o)
			} else if zzverif.NondetInt("src.change", 0, 1) == 0 {
				o := mkSvc()
				content = []metav1.Object{o}
				ev = kcache.NewEvent(kcache.EventTypeUpdate, o)
			} else {
				o := content[0]
				content = nil
				ev = kcache.NewEvent(kcache.EventTypeDelete, o)
			}
			src.set(content)
			if srcReady {
				if sub == nil {
					zzverif.Quiesce()
					sub = <-src.subs
				}
				sub.evch <- ev
			}
			zzverif.Reach("C09/end-to-end/source-changed")
		}
	}
	zzverif.Quiesce()
	ready := vIsClosed(res.Ready())
	zzverif.Assert(ready == (srcReady && tree.IsReady()), "C09/ready-after-both/end-to-end")
	if !ready {
		return
	}
	got, err := res.Cache().List()
	zzverif.Assert(err == nil, "harness/list")
	want := 0
	for _, p := range pods {
		sel := false
		for _, o := range content {
			svc := o.(*corev1.Service)
			sel = zzverif.Or(sel, zzverif.And(svc.Namespace == p.Namespace, svc.Spec.Selector["app"] == p.Labels["app"]))
		}
		in := false
		for _, g := range got {
			if g == p {
				in = true
			}
		}
		if sel {
			want++
			zzverif.Assert(in, "C09/selects-matched/end-to-end/selected-present")
		} else {
			zzverif.Assert(!in, "C09/selects-matched/end-to-end/unselected-absent")
		}
	}
	zzverif.Assert(len(got) == want, "C09/selects-matched/end-to-end/nothing-else")
	zzverif.Reach("C09/end-to-end/ready")
}
