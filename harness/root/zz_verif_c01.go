//go:build verif

package kcache

import (
	"github.com/boz/kcache/filter"
	"github.com/boz/kcache/zzverif"
	metav1 "k8s.io/apimachinery/pkg/apis/meta/v1"
)

// C01 / C02: one inductive step of the cache kernel from an arbitrary state
// satisfying Inv, compared with the reference semantics.

func VerifC01_Update() {
	c, pre := vSymCache(zzverif.Param("N", 2), symFilter{0})
	obj := vSymPod("o")
	et := EventType(zzverif.NondetString("etype"))
	evt := NewEvent(et, obj)

	events := c.doUpdate(evt)

	post := vSnapshot(c)
	k := vEntOf(obj)
	old, found := vFind(pre, k)
	now, present := vFind(post, k)
	okv := zzverif.AtoiOK(obj.ResourceVersion)
	acc := symFilter{0}.Accept(obj)

	unchanged := func() {
		zzverif.Assert(present == found, "C01/content/update/unchanged")
		if present && found {
			zzverif.Assert(zzverif.And(now.obj == old.obj, now.ver == old.ver), "C01/content/update/unchanged")
		}
	}
	switch {
	case !okv:
		zzverif.Reach("C01/update/malformed")
		unchanged()
	case et == EventTypeDelete:
		if !found {
			zzverif.Reach("C01/update/delete-missing")
			zzverif.Assert(!present, "C01/content/update/delete")
		} else if k.ver >= old.ver {
			zzverif.Reach("C01/update/delete")
			zzverif.Assert(!present, "C01/content/update/delete")
		} else {
			// delete older than the cached version: either outcome
			zzverif.Reach("C01/update/delete-stale")
			if present {
				zzverif.Assert(zzverif.And(now.obj == old.obj, now.ver == old.ver), "C01/content/update/delete-stale")
			}
		}
	case !found:
		if acc {
			zzverif.Reach("C01/update/create")
			zzverif.Assert(present, "C01/content/update/create")
			if present {
				zzverif.Assert(zzverif.And(now.obj == metav1.Object(obj), now.ver == k.ver), "C01/content/update/create")
			}
		} else {
			zzverif.Reach("C01/update/rejected-unknown")
			zzverif.Assert(!present, "C01/content/update/rejected-unknown")
		}
	case k.ver > old.ver:
		if acc {
			zzverif.Reach("C01/update/update")
			zzverif.Assert(present, "C01/content/update/replace")
			if present {
				zzverif.Assert(zzverif.And(now.obj == metav1.Object(obj), now.ver == k.ver), "C01/content/update/replace")
			}
		} else {
			zzverif.Reach("C01/update/filter-delete")
			zzverif.Assert(!present, "C01/content/update/filter-delete")
		}
	default:
		zzverif.Reach("C01/update/stale")
		unchanged()
	}

	// frame: every other key is untouched
	for _, e := range pre {
		if vSameKey(e, k) {
			continue
		}
		f, ok := vFind(post, e)
		zzverif.Assert(ok, "C01/frame/update")
		if ok {
			zzverif.Assert(zzverif.And(f.obj == e.obj, f.ver == e.ver), "C01/frame/update")
		}
	}
	for _, e := range post {
		if vSameKey(e, k) {
			continue
		}
		_, ok := vFind(pre, e)
		zzverif.Assert(ok, "C01/frame/update")
	}
	vCheckInv(c, "C01/invariant")

	// C02
	replayed := vReplayEvents(pre, events)
	zzverif.Assert(vSameContent(replayed, post), "C02/exact/update")
	if vSameContent(pre, post) {
		zzverif.Reach("C02/minimal/no-change")
		zzverif.Assert(len(events) == 0, "C02/minimal/update")
	}
	zzverif.Assert(len(events) <= 1, "C02/minimal/update-one-event")
}

func VerifC01_Sync()     { vC01Sync(false) }
func VerifC01_Refilter() { vC01Sync(true) }

func vC01Sync(refilter bool) {
	c, pre := vSymCache(zzverif.Param("N", 2), symFilter{0})
	m := zzverif.NondetInt("list.m", 0, zzverif.Param("L", 2))
	var list []metav1.Object
	for i := 0; i < m; i++ {
		list = append(list, vSymPod("l"))
	}

	var fnew filter.Filter = symFilter{0}
	var events []Event
	if refilter {
		// a new filter, or one that compares equal to the current one (the list must be applied either way)
		fnew = symFilter{zzverif.NondetInt("fnew", 0, 1)}
		events = c.doRefilter(list, fnew)
		zzverif.Assert(c.filter == fnew, "C01/content/refilter/filter-set")
	} else {
		events = c.doSync(list)
	}
	post := vSnapshot(c)

	// candidate keys: cached entries and listed objects
	var keys []vEnt
	for _, e := range pre {
		keys = append(keys, e)
	}
	for _, o := range list {
		k := vEntOf(o)
		if _, dup := vFind(keys, k); !dup {
			keys = append(keys, k)
		}
	}

	for _, k := range keys {
		old, found := vFind(pre, k)
		now, present := vFind(post, k)

		// parseable list entries with this key
		var cands []vEnt
		for _, o := range list {
			e := vEntOf(o)
			if vSameKey(e, k) && zzverif.AtoiOK(o.GetResourceVersion()) {
				cands = append(cands, e)
			}
		}

		switch len(cands) {
		case 0:
			zzverif.Reach("C01/sync/missing")
			zzverif.Assert(!present, "C01/content/sync/missing-deleted")
		case 1:
			l := cands[0]
			winner := l
			if found && old.ver >= l.ver {
				winner = old
				zzverif.Reach("C01/sync/keep-cached")
			}
			if fnew.Accept(winner.obj) {
				zzverif.Reach("C01/sync/present")
				zzverif.Assert(present, "C01/content/sync/winner-present")
				if present {
					zzverif.Assert(zzverif.And(now.obj == winner.obj, now.ver == winner.ver), "C01/content/sync/winner-present")
				}
			} else {
				zzverif.Reach("C01/sync/rejected")
				zzverif.Assert(!present, "C01/content/sync/winner-rejected-absent")
			}
		default:
			zzverif.Reach("C01/sync/duplicate")
			all := cands
			if found {
				all = append([]vEnt{old}, cands...)
			}
			if present {
				isCand := false
				for _, e := range all {
					isCand = zzverif.Or(isCand, zzverif.And(e.obj == now.obj, e.ver == now.ver))
				}
				zzverif.Assert(isCand, "C01/content/dup-safety/is-candidate")
				zzverif.Assert(fnew.Accept(now.obj), "C01/content/dup-safety/accepted")
				if found {
					zzverif.Assert(now.ver >= old.ver, "C01/content/dup-safety/no-regress")
				}
			}
			// newest decides
			allNewestAcc, allNewestRej := true, true
			newerRejected := false
			for _, e := range all {
				newest := true
				for _, o := range all {
					newest = zzverif.And(newest, e.ver >= o.ver)
				}
				a := fnew.Accept(e.obj)
				allNewestAcc = zzverif.And(allNewestAcc, zzverif.Implies(newest, a))
				allNewestRej = zzverif.And(allNewestRej, zzverif.Implies(newest, zzverif.Not(a)))
				if present {
					newerRejected = zzverif.Or(newerRejected, zzverif.And(e.ver > now.ver, zzverif.Not(a)))
				}
			}
			okNewest := true
			if present {
				isNewest := true
				for _, o := range all {
					isNewest = zzverif.And(isNewest, now.ver >= o.ver)
				}
				// present: must be a newest candidate and not all newest rejected
				okNewest = zzverif.And(isNewest, zzverif.Not(allNewestRej))
			} else {
				okNewest = zzverif.Not(allNewestAcc)
			}
			// known class (F2): an older duplicate is kept although a strictly newer one was rejected
			zzverif.Assert(zzverif.Or(okNewest, newerRejected), "C01/content/dup-newest-decides")
			zzverif.Assert(zzverif.Or(okNewest, zzverif.Not(newerRejected)), "C01/content/dup-newest-decides/newer-rejected")
		}
	}
	// frame: nothing but candidate keys is present
	for _, e := range post {
		_, ok := vFind(keys, e)
		zzverif.Assert(ok, "C01/frame/sync")
	}
	vCheckInv(c, "C01/invariant")

	// C02
	replayed := vReplayEvents(pre, events)
	zzverif.Assert(vSameContent(replayed, post), "C02/exact/sync")
	if vSameContent(pre, post) {
		zzverif.Reach("C02/minimal/no-change")
		zzverif.Assert(len(events) == 0, "C02/minimal/sync")
	}
}
