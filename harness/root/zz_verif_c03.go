//go:build verif

package kcache

import (
	"context"

	"errors"
	pkgerrors "github.com/pkg/errors"

	lifecycle "github.com/boz/go-lifecycle"
	"github.com/boz/kcache/zzverif"
	corev1 "k8s.io/api/core/v1"
	metav1 "k8s.io/apimachinery/pkg/apis/meta/v1"
	"k8s.io/apimachinery/pkg/runtime"
	"k8s.io/apimachinery/pkg/runtime/schema"
)

// C03 / C14 (+ controller clauses of C02, C05, C08): the real controller.run
// and the real cache actor between a fake lister, a fake watcher whose event
// channel is fed with ARBITRARY events (this over-approximates every watch
// fault: drops, duplicates, replays, reordering, never connecting) and a
// recording subscription.

type vResetRec struct {
	version string
	snap    []vEnt // cache content seen from inside watcher.reset (right after the sync)
	ready   bool
	sent    int // events handed to the subscription so far
}

type vFakeWatcher struct {
	evch   chan Event
	resets chan vResetRec
	done   chan struct{}
	c      *controller
	rs     *vRecSub
}

func (w *vFakeWatcher) reset(v string) error {
	w.resets <- vResetRec{version: v, snap: vListEnts(w.c.cache, "harness/cache-list"), ready: vClosed(w.c.readych), sent: len(w.rs.log)}
	return nil
}
func (w *vFakeWatcher) events() <-chan Event  { return w.evch }
func (w *vFakeWatcher) Done() <-chan struct{} { return w.done }
func (w *vFakeWatcher) Error() error          { return nil }

type vFakeLister struct {
	resultch chan listResult
	done     chan struct{}
}

func (l *vFakeLister) Result() <-chan listResult { return l.resultch }
func (l *vFakeLister) Done() <-chan struct{}     { return l.done }
func (l *vFakeLister) Error() error              { return nil }

// vRecSub records what the controller hands to its subscription.
type vRecSub struct {
	log   chan Event
	cache CacheReader
}

func (s *vRecSub) send(ev Event) error {
	// C05: by the time an event is handed to subscribers the cache is at least as new
	if s.cache != nil {
		o := ev.Resource()
		g, err := s.cache.Get(o.GetNamespace(), o.GetName())
		if err == nil {
			if ev.Type() == EventTypeDelete {
				if g != nil {
					zzverif.Assert(zzverif.AtoiVal(g.GetResourceVersion()) >= zzverif.AtoiVal(o.GetResourceVersion()), "C05/cache-not-older")
				}
			} else {
				zzverif.Assert(g != nil, "C05/cache-not-older")
				if g != nil {
					zzverif.Assert(zzverif.AtoiVal(g.GetResourceVersion()) >= zzverif.AtoiVal(o.GetResourceVersion()), "C05/cache-not-older")
				}
			}
			zzverif.Reach("C05/cache-checked")
		}
	}
	s.log <- ev
	return nil
}
func (s *vRecSub) Cache() CacheReader     { return nil }
func (s *vRecSub) Ready() <-chan struct{} { return nil }
func (s *vRecSub) Events() <-chan Event   { return nil }
func (s *vRecSub) Close()                 {}
func (s *vRecSub) Done() <-chan struct{}  { return nil }
func (s *vRecSub) Error() error           { return nil }

type vCtlEnv struct {
	c        *controller
	w        *vFakeWatcher
	l        *vFakeLister
	rs       *vRecSub
	mirror   []vEnt // replay of published events on the content at readiness
	mirrored bool
}

func newCtlEnv(bufsz int) *vCtlEnv {
	lc := lifecycle.New()
	ctx := context.Background()
	e := &vCtlEnv{}
	e.rs = &vRecSub{log: make(chan Event, bufsz)}
	e.l = &vFakeLister{resultch: make(chan listResult), done: make(chan struct{})}
	e.w = &vFakeWatcher{evch: make(chan Event, bufsz), resets: make(chan vResetRec, bufsz), done: make(chan struct{}), rs: e.rs}
	e.c = &controller{
		readych:      make(chan struct{}),
		watcher:      e.w,
		lister:       e.l,
		cache:        newCache(ctx, vLog{}, lc.ShuttingDown(), symFilter{0}),
		subscription: e.rs,
		log:          vLog{},
		lc:           lc,
		ctx:          ctx,
	}
	e.w.c = e.c
	e.rs.cache = e.c.cache
	// like the real collaborators, the fakes stop when the controller shuts down
	go func() {
		<-lc.ShuttingDown()
		close(e.l.done)
		close(e.w.done)
	}()
	go e.c.lc.WatchContext(ctx)
	go e.c.run()
	return e
}

func vSymPodList(max int) (*corev1.PodList, []metav1.Object) {
	pl := &corev1.PodList{ListMeta: metav1.ListMeta{ResourceVersion: zzverif.NondetString("list.rv")}}
	m := zzverif.NondetInt("list.m", 0, max)
	for i := 0; i < m; i++ {
		p := vSymPod("l")
		pl.Items = append(pl.Items, *p)
	}
	var objs []metav1.Object
	for i := range pl.Items {
		objs = append(objs, &pl.Items[i])
	}
	return pl, objs
}

func (e *vCtlEnv) drainSent() []Event {
	var evs []Event
	for {
		select {
		case ev := <-e.rs.log:
			evs = append(evs, ev)
			continue
		default:
		}
		break
	}
	return evs
}

// checkList: oracle for one applied list, from the snapshot taken inside watcher.reset.
func (e *vCtlEnv) checkList(rec vResetRec, pl *corev1.PodList, objs []metav1.Object, before []vEnt, exact bool) {
	zzverif.Assert(rec.version == pl.ResourceVersion, "C03/watch-reset/version")
	zzverif.Assert(rec.ready, "C08/controller-ready-after-first-list")
	// every cached key was listed; every listed accepted object is present and not older than listed
	for _, s := range rec.snap {
		listed := false
		for _, o := range objs {
			listed = zzverif.Or(listed, vSameKey(vEntOf(o), s))
		}
		zzverif.Assert(listed, "C03/cache-equals-list/missing-absent")
	}
	for i, o := range objs {
		k := vEntOf(o)
		dup := false
		for j, p := range objs {
			if i != j && vSameKey(vEntOf(p), k) {
				dup = true
			}
		}
		if dup || !zzverif.AtoiOK(o.GetResourceVersion()) {
			continue // duplicate keys / unparseable versions: C01
		}
		now, present := vFind(rec.snap, k)
		if (symFilter{0}).Accept(o) {
			zzverif.Assert(present, "C03/cache-equals-list/accepted-present")
			if present {
				zzverif.Assert(now.ver >= k.ver, "C03/cache-equals-list/never-regress")
			}
		} else if present {
			zzverif.Assert(now.ver >= k.ver, "C03/cache-equals-list/rejected-absent-unless-newer")
			zzverif.Assert(now.obj != o, "C03/cache-equals-list/rejected-absent-unless-newer")
		}
		if exact {
			// nothing was in flight: the exact reference result
			old, found := vFind(before, k)
			winner := k
			if found && old.ver >= k.ver {
				winner = old
			}
			if (symFilter{0}).Accept(winner.obj) {
				zzverif.Assert(present, "C03/quiescent-convergence")
				if present {
					zzverif.Assert(zzverif.And(now.obj == winner.obj, now.ver == winner.ver), "C03/quiescent-convergence")
				}
			} else {
				zzverif.Assert(!present, "C03/quiescent-convergence")
			}
		}
	}
}

// mirrorCheck: a consumer that mirrors the cache by replaying the published
// events from the content at readiness never diverges (at quiescence).
func (e *vCtlEnv) mirrorCheck() {
	content := vListEnts(e.c.cache, "harness/cache-list")
	if !e.mirrored {
		return
	}
	e.mirror = vReplayEventsL(e.mirror, e.drainSent(), "C02/published-wellformed")
	zzverif.Assert(vSameContent(e.mirror, content), "C02/published-exactly")
	zzverif.Assert(vSameContent(e.mirror, content), "C03/events-account")
	// C05: whatever version of an object the subscriber has learnt from the events it
	// received, a cache read never returns an older one (e.g. after a stale relist)
	for _, m := range e.mirror {
		if c, present := vFind(content, m); present {
			zzverif.Assert(c.ver >= m.ver, "C05/cache-never-older-than-received")
		}
	}
}

func VerifC03_Controller() {
	K := zzverif.Param("K", 3)
	L := zzverif.Param("L", 2)
	e := newCtlEnv(4 * K)
	lists := 0
	for i := 0; i < K; i++ {
		switch zzverif.NondetInt("action", 0, 2) {
		case 0: // a list completes with nothing in flight
			before := vListEnts(e.c.cache, "harness/cache-list")
			pl, objs := vSymPodList(L)
			e.l.resultch <- listResult{list: pl}
			zzverif.Quiesce()
			rec := <-e.w.resets
			lists++
			e.checkList(rec, pl, objs, before, true)
			if lists == 1 {
				zzverif.Assert(rec.sent == 0, "C03/initial/nothing-distributed")
				zzverif.Assert(len(e.drainSent()) == 0, "C03/initial/nothing-distributed")
				e.mirror, e.mirrored = rec.snap, true
				zzverif.Reach("C03/initial")
			} else {
				zzverif.Reach("C03/relist")
			}
			e.mirrorCheck()
		case 1: // an arbitrary watch event (any type, key, version)
			if lists == 0 {
				zzverif.Assume(false) // the watcher delivers nothing before its first reset
			}
			e.w.evch <- NewEvent(EventType(zzverif.NondetString("wtype")), vSymPod("w"))
			zzverif.Quiesce()
			e.mirrorCheck()
			zzverif.Reach("C03/watch-event")
		default: // a list completes while watch events are in flight
			if lists == 0 {
				zzverif.Assume(false)
			}
			pl, objs := vSymPodList(L)
			e.w.evch <- NewEvent(EventType(zzverif.NondetString("wtype")), vSymPod("w"))
			e.l.resultch <- listResult{list: pl}
			zzverif.Quiesce()
			rec := <-e.w.resets
			lists++
			e.checkList(rec, pl, objs, nil, false)
			if lists == 1 {
				e.mirror, e.mirrored = vListEnts(e.c.cache, "harness/cache-list"), true
				// events published after readiness but before this quiescent point are part of the mirror base
				e.drainSent()
			}
			e.mirrorCheck()
			zzverif.Reach("C03/list-with-events-in-flight")
		}
	}
	zzverif.Assert(vClosed(e.c.Ready()) == (lists > 0), "C08/controller-ready-iff-listed")
	zzverif.Assert(!vClosed(e.c.Done()), "C14/watch-not-fatal")
	zzverif.Assert(e.c.Error() == lifecycle.ErrRunning, "C14/watch-not-fatal")
	select {
	case <-e.w.resets:
		zzverif.Assert(false, "C03/watch-reset/exactly-once-per-list")
	default:
	}
}

// ---- C14: list failures

type vNoMeta struct{ metav1.TypeMeta }

func (o *vNoMeta) DeepCopyObject() runtime.Object   { return o }
func (o *vNoMeta) GetObjectKind() schema.ObjectKind { return &o.TypeMeta }

type vBadItemsList struct {
	metav1.TypeMeta
	metav1.ListMeta
	Items []vNoMeta
}

func (l *vBadItemsList) DeepCopyObject() runtime.Object { return l }

var vInjected = errors.New("injected list failure")

func VerifC14_Controller() {
	k := zzverif.NondetInt("k", 1, zzverif.Param("KMAX", 3))
	e := newCtlEnv(8)
	// a subscriber-side observer of readiness
	for i := 1; i < k; i++ {
		pl, _ := vSymPodList(1)
		e.l.resultch <- listResult{list: pl}
		zzverif.Quiesce()
		<-e.w.resets
	}
	kind := zzverif.NondetInt("failure", 0, 4)
	switch kind {
	case 4:
		e.l.resultch <- listResult{err: pkgerrors.Wrap(context.Canceled, "client list")} // a cancellation error of the server's own
	case 0:
		e.l.resultch <- listResult{err: vInjected}
	case 1:
		e.l.resultch <- listResult{list: &vNoMeta{}} // not a list: no list accessor
	case 2:
		e.l.resultch <- listResult{list: &vBadItemsList{Items: []vNoMeta{{}}}} // list of non-objects
	default:
		e.l.resultch <- listResult{list: &corev1.Pod{}} // an object, not a list
	}
	zzverif.Quiesce()
	zzverif.Assert(vClosed(e.c.Done()), "C14/fail-stop/done")
	err := e.c.Error()
	zzverif.Assert(err != nil, "C14/fail-stop/error-reported")
	zzverif.Assert(err != lifecycle.ErrRunning, "C14/fail-stop/error-reported")
	if kind == 0 {
		zzverif.Assert(vCause(err) == vInjected, "C14/fail-stop/cause")
	}
	zzverif.Assert(vClosed(e.c.cache.Done()), "C14/subtree-down/cache")
	if k == 1 {
		zzverif.Assert(!vClosed(e.c.Ready()), "C14/not-ready")
		zzverif.Assert(!vClosed(e.c.Ready()), "C08/failed-first-list-never-ready")
		zzverif.Reach("C14/first-list-failed")
	} else {
		zzverif.Reach("C14/later-list-failed")
	}
	select {
	case <-e.w.resets:
		zzverif.Assert(false, "C14/fail-stop/no-further-list-applied")
	default:
	}
	zzverif.Assert(zzverif.LiveLibGoroutines() == 0, "C14/fail-stop/goroutines-exit")
}

func vCause(err error) error {
	type causer interface{ Cause() error }
	for err != nil {
		c, ok := err.(causer)
		if !ok {
			break
		}
		n := c.Cause()
		if n == nil {
			break
		}
		err = n
	}
	return err
}

// VerifC14_Close: a controller closed deliberately reports no failure.
func VerifC14_Close() {
	e := newCtlEnv(8)
	if zzverif.NondetInt("listed", 0, 1) == 1 {
		pl, _ := vSymPodList(1)
		e.l.resultch <- listResult{list: pl}
		zzverif.Quiesce()
		<-e.w.resets
	}
	e.c.Close()
	zzverif.Assert(vClosed(e.c.Done()), "C14/close/done")
	zzverif.Assert(e.c.Error() == nil, "C14/close-no-error")
	zzverif.Quiesce()
	zzverif.Assert(zzverif.LiveLibGoroutines() == 0, "C14/close/goroutines-exit")
	zzverif.Reach("C14/closed")
}

// VerifC14_Tree: the controller with its REAL subscription and publisher and a
// small tree of subscribers: a fatal list error shuts the whole subtree down.
func VerifC14_Tree() {
	lc := lifecycle.New()
	ctx := context.Background()
	fl := &vFakeLister{resultch: make(chan listResult), done: make(chan struct{})}
	fw := &vFakeWatcher{evch: make(chan Event, 4), resets: make(chan vResetRec, 8), done: make(chan struct{}), rs: &vRecSub{log: make(chan Event, 1)}}
	cch := newCache(ctx, vLog{}, lc.ShuttingDown(), symFilter{0})
	readych := make(chan struct{})
	sub := newSubscription(vLog{}, lc.ShuttingDown(), readych, cch)
	c := &controller{readych: readych, watcher: fw, lister: fl, cache: cch, subscription: sub, publisher: newPublisher(vLog{}, sub), log: vLog{}, lc: lc, ctx: ctx}
	fw.c = c
	go func() {
		<-lc.ShuttingDown()
		close(fl.done)
		close(fw.done)
	}()
	go c.lc.WatchContext(ctx)
	go c.run()

	tree := zzverif.Param("TREE", 1)
	s1, err := c.Subscribe()
	zzverif.Assert(err == nil, "harness/subscribe")
	var f1 FilterSubscription
	var cl Controller
	var s2 Subscription
	if tree >= 2 {
		f1, err = c.SubscribeWithFilter(symFilter{1})
		zzverif.Assert(err == nil, "harness/subscribe")
	}
	if tree >= 3 {
		cl, err = c.Clone()
		zzverif.Assert(err == nil, "harness/clone")
		s2, err = cl.Subscribe()
		zzverif.Assert(err == nil, "harness/subscribe")
	}

	k := zzverif.NondetInt("k", 1, zzverif.Param("KMAX", 2))
	for i := 1; i < k; i++ {
		pl, _ := vSymPodList(1)
		fl.resultch <- listResult{list: pl}
		zzverif.Quiesce()
		<-fw.resets
	}
	if zzverif.NondetInt("how", 0, 1) == 0 {
		fl.resultch <- listResult{err: vInjected}
	} else {
		c.Close()
	}
	zzverif.Quiesce()
	zzverif.Assert(vClosed(c.Done()), "C14/fail-stop/done")
	zzverif.Assert(vClosed(s1.Done()), "C14/subtree-down/subscriber")
	if f1 != nil {
		zzverif.Assert(vClosed(f1.Done()), "C14/subtree-down/filtered-subscriber")
	}
	if cl != nil {
		zzverif.Assert(vClosed(cl.Done()), "C14/subtree-down/clone")
		zzverif.Assert(vClosed(s2.Done()), "C14/subtree-down/subscriber-of-clone")
	}
	_, ok := <-s1.Events()
	zzverif.Assert(!ok, "C14/subtree-down/events-closed")
	if k == 1 {
		zzverif.Assert(!vClosed(s1.Ready()), "C14/not-ready")
		if f1 != nil {
			zzverif.Assert(!vClosed(f1.Ready()), "C14/not-ready")
		}
		if s2 != nil {
			zzverif.Assert(!vClosed(s2.Ready()), "C14/not-ready")
		}
	}
	zzverif.Assert(zzverif.LiveLibGoroutines() == 0, "C14/subtree-down/goroutines-exit")
	zzverif.Reach("C14/tree-down")
}
