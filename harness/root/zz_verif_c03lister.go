//go:build verif

package kcache

import (
	"context"
	"strconv"
	"time"

	"github.com/boz/kcache/zzverif"
	corev1 "k8s.io/api/core/v1"
	metav1 "k8s.io/apimachinery/pkg/apis/meta/v1"
)

// VerifC03_Lister: the real lister and ticker under slow lists. Every list call that
// completes while the lister runs is handed to the controller (no completed list is
// dropped or replaced by another one), whatever the ratio of list latency to refresh
// period: timer fires are environment transitions, so the refresh timer may fire at any
// point of a list call that the harness keeps in flight.
func VerifC03_Lister() {
	cycles := zzverif.Param("CYCLES", 2)
	cl := newListClient()
	stop := make(chan struct{})
	vPeriod := zzverif.NondetInt64("minperiod")
	zzverif.Assume(zzverif.And(vPeriod >= 1, vPeriod <= 1<<40))
	l := newLister(context.Background(), vLog{}, stop, time.Duration(vPeriod), cl)
	zzverif.AllowTimerFires(zzverif.Param("FIRES", 3))
	n := zzverif.NondetInt("cycles", 1, cycles)
	for k := 1; k <= n; k++ {
		<-cl.starts // list call k is in flight
		if zzverif.NondetInt("slow", 0, 1) == 1 {
			zzverif.Quiesce() // ... for longer than any number of refresh periods
			zzverif.Reach("C03/lister/slow-list")
		}
		// the server answers call k
		cl.release <- vListReply{obj: &corev1.PodList{ListMeta: metav1.ListMeta{ResourceVersion: strconv.Itoa(k)}}}
		// once everything has settled the completed list is on offer to the controller
		got := make(chan listResult, 1)
		go func() { got <- <-l.Result() }() // the controller, waiting for the result
		zzverif.Quiesce()
		var r listResult
		select {
		case r = <-got:
		default:
			zzverif.Assert(false, "C03/lister/completed-list-delivered")
			return
		}
		zzverif.Assert(r.err == nil, "C03/lister/result")
		if r.err == nil {
			pl, ok := r.list.(*corev1.PodList)
			zzverif.Assert(ok && pl.ResourceVersion == strconv.Itoa(k), "C03/lister/completed-list-delivered")
		}
		zzverif.Reach("C03/lister/delivered")
	}
	close(stop)
	zzverif.Quiesce()
	zzverif.Assert(vClosed(l.Done()), "C03/lister/done")
}
