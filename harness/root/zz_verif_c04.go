//go:build verif

package kcache

import (
	"context"
	"errors"
	"strconv"

	lifecycle "github.com/boz/go-lifecycle"
	"github.com/boz/kcache/filter"
	"github.com/boz/kcache/zzverif"
	corev1 "k8s.io/api/core/v1"
	metav1 "k8s.io/apimachinery/pkg/apis/meta/v1"
	"k8s.io/apimachinery/pkg/watch"
)

// C04: the real watcher and watch sessions under the real controller loop,
// against a fake API server with a fixed history e1..en. Watch(rv) either
// fails or streams the events newer than rv, interleaved with non-object
// frames, and may close after any frame (fault budget F).

const vListVersion = 10

type vServer struct {
	n      int
	hist   []watch.Event
	calls  chan int      // resourceVersion of every Watch call
	budget chan struct{} // remaining faults
	served chan int      // highest version handed to a stream reader so far
}

func newServer(n, faults int) *vServer {
	s := &vServer{n: n, calls: make(chan int, 32), budget: make(chan struct{}, faults), served: make(chan int, 64)}
	for i := 0; i < faults; i++ {
		s.budget <- struct{}{}
	}
	for i := 1; i <= n; i++ {
		var t watch.EventType
		switch zzverif.NondetInt("ev.type", 0, 2) {
		case 0:
			t = watch.Added
		case 1:
			t = watch.Modified
		default:
			t = watch.Deleted
		}
		p := vSymPod("h")
		p.ResourceVersion = strconv.Itoa(vListVersion + i)
		s.hist = append(s.hist, watch.Event{Type: t, Object: p})
	}
	return s
}

func (s *vServer) fault(tag string) bool {
	select {
	case <-s.budget:
		if zzverif.NondetInt(tag, 0, 1) == 1 {
			return true
		}
		s.budget <- struct{}{} // not used
		return false
	default:
		return false
	}
}

var vWatchErr = errors.New("injected watch error")

type vStream struct {
	ch     chan watch.Event
	stopch chan struct{}
}

func (st *vStream) Stop() {
	select {
	case st.stopch <- struct{}{}:
	default:
	}
}
func (st *vStream) ResultChan() <-chan watch.Event { return st.ch }

func (s *vServer) Watch(ctx context.Context, opts metav1.ListOptions) (watch.Interface, error) {
	rv, err := strconv.Atoi(opts.ResourceVersion)
	zzverif.Assert(err == nil, "C04/resume-version/parseable")
	s.calls <- rv
	if s.fault("fault.connect") {
		return nil, vWatchErr
	}
	st := &vStream{ch: make(chan watch.Event), stopch: make(chan struct{}, 1)}
	go func() {
		defer close(st.ch)
		for i := 0; i < s.n; i++ {
			ev := s.hist[i]
			if vListVersion+i+1 <= rv {
				continue
			}
			// optional non-object / unknown frames before the event
			switch zzverif.NondetInt("frame", 0, 3) {
			case 1:
				select {
				case st.ch <- watch.Event{Type: watch.Error, Object: &metav1.Status{Status: "Failure"}}:
				case <-st.stopch:
					return
				}
			case 2:
				select {
				case st.ch <- watch.Event{Type: watch.Bookmark, Object: &corev1.Pod{ObjectMeta: metav1.ObjectMeta{ResourceVersion: strconv.Itoa(vListVersion + i)}}}:
				case <-st.stopch:
					return
				}
			case 3:
				if s.fault("fault.close") {
					return // the server closes the stream here
				}
			}
			select {
			case st.ch <- ev:
			case <-st.stopch:
				return
			}
		}
		if s.fault("fault.close-after-burst") {
			return
		}
		<-st.stopch // the stream stays open
	}()
	return st, nil
}

// vRecCache records the events handed to cache.update and publishes them unchanged.
type vRecCache struct {
	log  chan Event
	done chan struct{}
}

func (c *vRecCache) sync([]metav1.Object) ([]Event, error) { return nil, nil }
func (c *vRecCache) update(ev Event) ([]Event, error) {
	c.log <- ev
	return []Event{ev}, nil
}
func (c *vRecCache) refilter([]metav1.Object, filter.Filter) ([]Event, error) { return nil, nil }
func (c *vRecCache) Done() <-chan struct{}                                    { return c.done }
func (c *vRecCache) Error() error                                             { return nil }
func (c *vRecCache) List() ([]metav1.Object, error)                           { return nil, nil }
func (c *vRecCache) Get(string, string) (metav1.Object, error)                { return nil, nil }
func (c *vRecCache) GetObject(metav1.Object) (metav1.Object, error)           { return nil, nil }

func VerifC04_Watch() {
	n := zzverif.NondetInt("n", 1, zzverif.Param("N", 2))
	F := zzverif.Param("F", 1)
	srv := newServer(n, F)
	lc := lifecycle.New()
	ctx := context.Background()
	rs := &vRecSub{log: make(chan Event, 64)}
	rc := &vRecCache{log: make(chan Event, 64), done: make(chan struct{})}
	fl := &vFakeLister{resultch: make(chan listResult), done: make(chan struct{})}
	c := &controller{
		readych:      make(chan struct{}),
		watcher:      newWatcher(ctx, vLog{}, lc.ShuttingDown(), srv),
		lister:       fl,
		cache:        rc,
		subscription: rs,
		log:          vLog{},
		lc:           lc,
		ctx:          ctx,
	}
	go func() {
		<-lc.ShuttingDown()
		close(fl.done)
		close(rc.done)
	}()
	go c.lc.WatchContext(ctx)
	go c.run()

	zzverif.AllowTimerFires(F + 1)
	// exactly one list (the refresh period is far beyond the run): only the watch can deliver
	fl.resultch <- listResult{list: &corev1.PodList{ListMeta: metav1.ListMeta{ResourceVersion: strconv.Itoa(vListVersion)}}}
	zzverif.Quiesce()

	// every change the server emitted was applied, first occurrences in history order
	next := 0
	for {
		var ev Event
		select {
		case ev = <-rc.log:
		default:
		}
		if ev == nil {
			break
		}
		v := zzverif.AtoiVal(ev.Resource().GetResourceVersion())
		if v == vListVersion+next+1 {
			want := srv.hist[next]
			zzverif.Assert(ev.Resource() == want.Object.(metav1.Object), "C04/applied-all/object")
			switch want.Type {
			case watch.Added:
				zzverif.Assert(ev.Type() == EventTypeCreate, "C04/applied-all/type")
			case watch.Modified:
				zzverif.Assert(ev.Type() == EventTypeUpdate, "C04/applied-all/type")
			default:
				zzverif.Assert(ev.Type() == EventTypeDelete, "C04/applied-all/type")
			}
			next++
		} else {
			// a replay of something already applied is allowed, skipping ahead is not
			zzverif.Assert(v <= vListVersion+next, "C04/applied-all/in-order")
		}
	}
	zzverif.Assert(next == n, "C04/applied-all")
	if next == n {
		zzverif.Reach("C04/all-applied")
	}
	// published = applied
	pub := 0
	for {
		select {
		case <-rs.log:
			pub++
			continue
		default:
		}
		break
	}
	zzverif.Assert(pub >= n, "C04/published")
	// every reconnect resumes at the list version or at the version of an event of the history
	ncalls := 0
	for {
		rv := -1
		select {
		case rv = <-srv.calls:
		default:
		}
		if rv < 0 {
			break
		}
		ncalls++
		zzverif.Assert(zzverif.And(rv >= vListVersion, rv <= vListVersion+n), "C04/resume-version")
		if ncalls == 1 {
			zzverif.Assert(rv == vListVersion, "C04/resume-version/first-at-list-version")
		}
	}
	if ncalls > 1 {
		zzverif.Reach("C04/reconnected")
	}
	zzverif.Assert(!vClosed(c.Done()), "C14/watch-not-fatal")
	zzverif.Assert(c.Error() == lifecycle.ErrRunning, "C14/watch-not-fatal")
	zzverif.Assert(!vClosed(c.watcher.Done()), "C04/not-fatal/watcher-alive")
}

// VerifC03_Relist: real watcher + sessions + real cache under the real
// controller loop, two lists with watch traffic in between. Whatever the watch
// delivered or still buffers, the second list leaves the cache equal to that
// list (its objects are newer than anything the watch ever carried).
func VerifC03_Relist() {
	n := zzverif.NondetInt("n", 0, zzverif.Param("N", 2))
	srv := newServer(n, 0)
	lc := lifecycle.New()
	ctx := context.Background()
	rs := &vRecSub{log: make(chan Event, 64)}
	fl := &vFakeLister{resultch: make(chan listResult), done: make(chan struct{})}
	c := &controller{
		readych:      make(chan struct{}),
		watcher:      newWatcher(ctx, vLog{}, lc.ShuttingDown(), srv),
		lister:       fl,
		cache:        newCache(ctx, vLog{}, lc.ShuttingDown(), filter.Null()),
		subscription: rs,
		log:          vLog{},
		lc:           lc,
		ctx:          ctx,
	}
	rs.cache = c.cache
	go func() {
		<-lc.ShuttingDown()
		close(fl.done)
	}()
	go c.lc.WatchContext(ctx)
	go c.run()

	mk := func(tag, lrv, orv string) (*corev1.PodList, []*corev1.Pod) {
		pl := &corev1.PodList{ListMeta: metav1.ListMeta{ResourceVersion: lrv}}
		if zzverif.NondetInt(tag+".m", 0, 1) == 1 {
			p := vSymPod(tag)
			p.ResourceVersion = orv
			pl.Items = append(pl.Items, *p)
		}
		var ps []*corev1.Pod
		for i := range pl.Items {
			ps = append(ps, &pl.Items[i])
		}
		return pl, ps
	}
	l1, _ := mk("l1", strconv.Itoa(vListVersion), "5")
	fl.resultch <- listResult{list: l1}
	if zzverif.NondetInt("settle", 0, 1) == 1 {
		zzverif.Quiesce()
	}
	l2, want := mk("l2", strconv.Itoa(vListVersion+10), "15")
	fl.resultch <- listResult{list: l2}
	zzverif.Quiesce()

	got := vListEnts(c.cache, "harness/cache-list")
	zzverif.Assert(len(got) == len(want), "C03/cache-equals-list/after-relist")
	for _, w := range want {
		g, ok := vFind(got, vEntOf(w))
		zzverif.Assert(ok, "C03/cache-equals-list/after-relist")
		if ok {
			zzverif.Assert(g.obj == metav1.Object(w), "C03/cache-equals-list/after-relist")
		}
	}
	// a mirror of the published events agrees with the cache
	zzverif.Assert(!vClosed(c.Done()), "C14/watch-not-fatal")
	if n > 0 {
		zzverif.Reach("C03/relist-with-watch-traffic")
	}
}
