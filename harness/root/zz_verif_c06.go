//go:build verif

package kcache

import (
	"context"

	"github.com/boz/kcache/nsname"

	"github.com/boz/kcache/filter"
	"github.com/boz/kcache/zzverif"
)

// C06 / C07 / C08: the real filterSubscription.run with its real private cache
// actor, below a fake parent subscription whose cache is a real cache actor
// (accept-all) mutated by the environment.

type vFilterEnv struct {
	parent   *vFakeSub
	pcache   cache
	fs       *filterSubscription
	deferred bool

	pready    bool
	refilters int
	cur       filter.Filter // filter most recently handed to Refilter (or the initial one)
	filters   []filter.Filter

	gotReady  bool   // own-delta tracking started
	replay    []vEnt // own content reconstructed from S_ready + own events
	skipDelta bool
}

// vParentCache adapts the real cache actor to CacheReader for the fake parent.
func newFilterEnv(deferred bool, f0 filter.Filter, bufsz int) *vFilterEnv {
	e := &vFilterEnv{deferred: deferred, cur: f0}
	e.parent = newFakeSub(bufsz)
	stop := make(chan struct{})
	e.pcache = newCache(context.Background(), vLog{}, stop, filter.Null())
	e.parent.cacheOverride = e.pcache
	e.fs = newFilterSubscription(vLog{}, e.parent, f0, deferred).(*filterSubscription)
	e.filters = append(e.filters, f0)
	return e
}

func (e *vFilterEnv) parentReady() {
	e.pready = true
	close(e.parent.readych)
}

// parentChange applies one arbitrary event to the parent's cache and forwards
// the resulting (well-formed) events to the subscription, like a publisher does.
func (e *vFilterEnv) parentChange() {
	ev := NewEvent(EventType(zzverif.NondetString("ptype")), vSymPod("p"))
	out, err := e.pcache.update(ev)
	zzverif.Assert(err == nil, "harness/parent-update")
	if e.pready {
		for _, x := range out {
			e.parent.evch <- x
		}
	}
}

func (e *vFilterEnv) refilter(f filter.Filter) {
	e.refilters++
	e.cur = f
	e.filters = append(e.filters, f)
	err := e.fs.Refilter(f)
	zzverif.Assert(err == nil, "harness/refilter")
}

func (e *vFilterEnv) expectReady() bool {
	if !e.pready {
		return false
	}
	return !e.deferred || e.refilters > 0
}

func vListEnts(c CacheReader, label string) []vEnt {
	l, err := c.List()
	zzverif.Assert(err == nil, label)
	var out []vEnt
	for _, o := range l {
		out = append(out, vEntOf(o))
	}
	return out
}

// observe checks, at a quiescent point, content / readiness / own delta.
func (e *vFilterEnv) observe(prop string) {
	ready := vClosed(e.fs.Ready())
	zzverif.Assert(ready == e.expectReady(), "C08/ready-iff-synced")
	own := vListEnts(e.fs.Cache(), "harness/own-list")
	if !ready {
		zzverif.Assert(len(own) == 0, "C06/content/empty-before-ready")
		select {
		case _, ok := <-e.fs.Events():
			// quiescent and not ready: nothing may have been emitted
			zzverif.Assert(!ok, "C08/no-event-before-ready")
		default:
		}
		return
	}
	// content = parent content filtered by the most recently set filter, at the parent's versions
	par := vListEnts(e.pcache, "harness/parent-list")
	n := 0
	for _, p := range par {
		o, present := vFind(own, p)
		if e.cur.Accept(p.obj) {
			n++
			zzverif.Assert(present, prop+"/content/accepted-present")
			if present {
				zzverif.Assert(zzverif.And(o.obj == p.obj, o.ver == p.ver), prop+"/content/parent-version")
			}
		} else {
			zzverif.Assert(!present, prop+"/content/rejected-absent")
		}
	}
	zzverif.Assert(len(own) == n, prop+"/content/nothing-else")

	// own event stream is a well-formed delta of the own cache
	if !e.gotReady {
		// first quiescent observation after readiness: S_ready unless events already flowed
		e.gotReady = true
		e.replay = own
		select {
		case <-e.fs.Events():
			e.skipDelta = true // events were emitted before this snapshot: delta base unknown
		default:
		}
		return
	}
	if e.skipDelta {
		return
	}
	var evs []Event
	for {
		select {
		case ev, ok := <-e.fs.Events():
			if ok {
				evs = append(evs, ev)
				continue
			}
		default:
		}
		break
	}
	e.replay = vReplayEventsL(e.replay, evs, prop+"/own-delta")
	zzverif.Assert(vSameContent(e.replay, own), prop+"/own-delta/exact")
	if len(evs) > 0 {
		zzverif.Reach(prop + "/own-events")
	}
}

func vPickFilter(tag string) filter.Filter {
	switch zzverif.NondetInt(tag, 0, 4) {
	case 4:
		return filter.All() // the initial filter of the deferred variant (and "accept none" for the immediate one)
	case 0:
		return symFilter{0}
	case 1:
		return symFilter{1}
	case 2:
		return symFilter{2}
	default:
		return ncFilter{3}
	}
}

// VerifC06: arbitrary interleaving of parent readiness, parent changes and
// Refilter calls; content is checked whenever the system is quiescent.
func vC06(deferred bool) {
	K := zzverif.Param("K", 4)
	var f0 filter.Filter = symFilter{0}
	if deferred {
		f0 = filter.All()
	}
	e := newFilterEnv(deferred, f0, 4*K)
	// the parent may already hold objects (not counted as actions)
	n0 := zzverif.NondetInt("parent.n0", 0, zzverif.Param("P0", 1))
	for i := 0; i < n0; i++ {
		e.parentChange()
	}
	inflight := false
	for i := 0; i < K; i++ {
		switch zzverif.NondetInt("action", 0, 2) {
		case 0:
			if e.pready {
				zzverif.Assume(false)
			}
			e.parentReady()
		case 1:
			e.parentChange()
		default:
			if inflight {
				zzverif.Reach("C06/refilter-while-in-flight")
			}
			e.refilter(vPickFilter("filter"))
		}
		inflight = true
		if zzverif.NondetInt("quiesce", 0, 1) == 1 {
			zzverif.Quiesce()
			e.observe("C06")
			inflight = false
		}
	}
	zzverif.Quiesce()
	e.observe("C06")
	if vClosed(e.fs.Ready()) {
		zzverif.Reach("C06/ready")
	}
	zzverif.Assert(!vClosed(e.fs.Done()), "C06/alive")
}

func VerifC06_Immediate() { vC06(false) }
func VerifC06_Deferred()  { vC06(true) }

// VerifC07: ready subscription, nothing in flight; Refilter(f2) [, Refilter(f3)].
func VerifC07_Refilter() { vC07(false) }

// VerifC07_Deferred: the same for a for-filter subscription that became ready
// through its first Refilter.
func VerifC07_Deferred() { vC07(true) }

func vC07(deferred bool) {
	P := zzverif.Param("P", 2)
	var f0 filter.Filter = symFilter{0}
	if deferred {
		f0 = filter.All()
	}
	e := newFilterEnv(deferred, f0, 8)
	n := zzverif.NondetInt("parent.n", 0, P)
	for i := 0; i < n; i++ {
		e.parentChange()
	}
	if deferred && zzverif.NondetInt("filter-first", 0, 1) == 1 {
		e.refilter(symFilter{0}) // the filter arrives before the parent is ready
		e.parentReady()
	} else {
		e.parentReady()
		if deferred {
			zzverif.Quiesce()
			e.refilter(symFilter{0}) // the first Refilter makes it ready
		}
	}
	zzverif.Quiesce()
	zzverif.Assert(vClosed(e.fs.Ready()), "C07/ready")
	before := vListEnts(e.fs.Cache(), "harness/own-list")
	par := vListEnts(e.pcache, "harness/parent-list")

	// events of the readiness transition are not part of any refilter delta
	for {
		select {
		case <-e.fs.Events():
			continue
		default:
		}
		break
	}
	steps := zzverif.NondetInt("steps", 1, zzverif.Param("STEPS", 2))
	first := before
	var prev filter.Filter = symFilter{0}
	static := true
	for s := 0; s < steps; s++ {
		if s > 0 && zzverif.Param("MOVING", 1) == 1 && zzverif.NondetInt("parent-moves", 0, 1) == 1 {
			// the parent changes between two refilters (possibly in a way the current filter hides)
			e.parentChange()
			zzverif.Quiesce()
			static = false
			par = vListEnts(e.pcache, "harness/parent-list")
			before = vListEnts(e.fs.Cache(), "harness/own-list")
			for {
				select {
				case <-e.fs.Events():
					continue
				default:
				}
				break
			}
			zzverif.Reach("C07/parent-moved")
		}
		var f filter.Filter
		switch zzverif.NondetInt("f", 0, 7) {
		case 5: // NSName filters over the parent's own keys: nested sets
			f = filter.NSName()
		case 6:
			if len(par) < 1 {
				zzverif.Assume(false)
			}
			f = filter.NSName(nsname.ForObject(par[0].obj))
		case 7:
			if len(par) < 2 {
				zzverif.Assume(false)
			}
			f = filter.NSName(nsname.ForObject(par[0].obj), nsname.ForObject(par[1].obj))
		case 0:
			f = symFilter{0}
		case 1:
			f = symFilter{1}
		case 2:
			f = symFilter{2}
		case 3:
			f = filter.Null()
		default:
			f = filter.All()
		}
		e.refilter(f)
		zzverif.Quiesce()
		after := vListEnts(e.fs.Cache(), "harness/own-list")
		var evs []Event
		for {
			select {
			case ev := <-e.fs.Events():
				evs = append(evs, ev)
				continue
			default:
			}
			break
		}
		if filter.FiltersEqual(prev, f) {
			zzverif.Reach("C07/equal")
			zzverif.Assert(len(evs) == 0, "C07/equal-noop/no-event")
			zzverif.Assert(vSameContent(before, after), "C07/equal-noop/unchanged")
		}
		// exactly one Delete per cached object f rejects, one Create per parent object newly accepted
		ndel, ncre := 0, 0
		for _, b := range before {
			if !f.Accept(b.obj) {
				ndel++
				found := 0
				for _, ev := range evs {
					if ev.Type() == EventTypeDelete && ev.Resource() == b.obj {
						found++
					}
				}
				zzverif.Assert(found == 1, "C07/exact-delta/one-delete-per-rejected")
			}
		}
		for _, p := range par {
			_, was := vFind(before, p)
			if !was && f.Accept(p.obj) {
				ncre++
				found := 0
				for _, ev := range evs {
					if ev.Type() == EventTypeCreate && ev.Resource() == p.obj {
						found++
					}
				}
				zzverif.Assert(found == 1, "C07/exact-delta/one-create-per-accepted")
			}
		}
		zzverif.Assert(len(evs) == ndel+ncre, "C07/exact-delta/nothing-else")
		if ndel > 0 {
			zzverif.Reach("C07/deletes")
		}
		if ncre > 0 {
			zzverif.Reach("C07/creates")
		}
		// resulting view = parent filtered by f
		cnt := 0
		for _, p := range par {
			_, present := vFind(after, p)
			zzverif.Assert(present == f.Accept(p.obj), "C07/view")
			if present {
				cnt++
			}
		}
		zzverif.Assert(len(after) == cnt, "C07/view")
		before = after
		prev = f
	}
	if static && steps == 2 && filter.FiltersEqual(prev, symFilter{0}) {
		zzverif.Reach("C07/restore")
		zzverif.Assert(vSameContent(first, before), "C07/restore")
	}
	// back to back: away and straight back to the current filter, without waiting in between
	if zzverif.NondetInt("back-to-back", 0, 1) == 1 {
		e.refilter(symFilter{2})
		e.refilter(prev)
		zzverif.Quiesce()
		now := vListEnts(e.fs.Cache(), "harness/own-list")
		zzverif.Assert(vSameContent(now, before), "C07/restore/back-to-back")
		zzverif.Reach("C07/back-to-back")
	}
}

// VerifC06_Nested: a filtered subscription below a filtered clone: the two
// filters compose as conjunction over the root parent's content.
func VerifC06_Nested() {
	K := zzverif.Param("KN", 2)
	e := newFilterEnv(false, symFilter{0}, 4*K+4)
	n0 := zzverif.NondetInt("parent.n0", 0, 1)
	for i := 0; i < n0; i++ {
		e.parentChange()
	}
	fc := newFilterPublisher(vLog{}, e.fs)
	inner, err := fc.SubscribeWithFilter(symFilter{1})
	zzverif.Assert(err == nil, "harness/subscribe")
	var innerF filter.Filter = symFilter{1}
	for i := 0; i < K; i++ {
		switch zzverif.NondetInt("action", 0, 3) {
		case 0:
			if e.pready {
				zzverif.Assume(false)
			}
			e.parentReady()
		case 1:
			e.parentChange()
		case 2:
			e.refilter(symFilter{2}) // the outer filter changes
		default:
			innerF = symFilter{3}
			zzverif.Assert(inner.Refilter(innerF) == nil, "harness/refilter")
		}
	}
	zzverif.Quiesce()
	if !vClosed(inner.Ready()) {
		zzverif.Assert(!e.pready, "C06/conjunction/ready")
		return
	}
	par := vListEnts(e.pcache, "harness/parent-list")
	own := vListEnts(inner.Cache(), "harness/own-list")
	n := 0
	for _, p := range par {
		o, present := vFind(own, p)
		if zzverif.And(e.cur.Accept(p.obj), innerF.Accept(p.obj)) {
			n++
			zzverif.Assert(present, "C06/conjunction/accepted-present")
			if present {
				zzverif.Assert(zzverif.And(o.obj == p.obj, o.ver == p.ver), "C06/conjunction/parent-version")
			}
		} else {
			zzverif.Assert(!present, "C06/conjunction/rejected-absent")
		}
	}
	zzverif.Assert(len(own) == n, "C06/conjunction/nothing-else")
	zzverif.Reach("C06/nested-ready")
}
