//go:build verif

package kcache

import (
	"context"

	"github.com/boz/kcache/filter"
	"github.com/boz/kcache/zzverif"
)

// C08: readiness of filtered subscriptions. A concurrent observer waits for
// Ready() and immediately reads the cache; the environment performs the
// property's action alphabet in any order.
func vC08(deferred bool) {
	K := zzverif.Param("K", 4)
	var f0 filter.Filter = symFilter{0}
	if deferred {
		f0 = filter.All()
	}
	e := newFilterEnv(deferred, f0, 4*K)
	n0 := zzverif.NondetInt("parent.n0", 0, zzverif.Param("P0", 1))
	for i := 0; i < n0; i++ {
		e.parentChange()
	}
	hist := [][]vEnt{vListEnts(e.pcache, "harness/parent-list")}

	obsch := make(chan []vEnt, 1)
	go func() {
		<-e.fs.Ready()
		obsch <- vListEnts(e.fs.Cache(), "harness/own-list")
	}()

	// the first event ever delivered must come after Ready() closed
	go func() {
		if _, ok := <-e.fs.Events(); ok {
			zzverif.Assert(vClosed(e.fs.Ready()), "C08/no-event-before-ready")
			zzverif.Reach("C08/first-event")
		}
	}()

	for i := 0; i < K; i++ {
		switch zzverif.NondetInt("action", 0, 3) {
		case 0:
			if e.pready {
				zzverif.Assume(false)
			}
			e.parentReady()
		case 1:
			e.parentChange()
			hist = append(hist, vListEnts(e.pcache, "harness/parent-list"))
		case 2:
			e.refilter(e.cur) // Refilter(equal)
		default:
			e.refilter(symFilter{1 + e.refilters%2}) // Refilter(new)
		}
	}
	zzverif.Quiesce()
	ready := vClosed(e.fs.Ready())
	zzverif.Assert(ready == e.expectReady(), "C08/ready-iff-synced")
	if deferred && ready {
		zzverif.Assert(zzverif.And(e.pready, e.refilters > 0), "C08/deferred-needs-filter")
		zzverif.Reach("C08/deferred-ready")
	}
	if !ready {
		zzverif.Reach("C08/not-ready")
		select {
		case _, ok := <-e.fs.Events():
			zzverif.Assert(!ok, "C08/no-event-before-ready")
		default:
		}
		return
	}
	zzverif.Reach("C08/ready")
	// the read made when Ready() was observed returned synced content: the
	// filtered parent content of some moment, under some filter that had been set
	seen := <-obsch
	// Events that were queued before the sync are re-applied on top of it, so the
	// read may show a transient mixture; what it can never do is miss an object
	// that was in the parent the whole time and accepted by every filter ever set
	// (which is what a Ready() closed before the sync would do), or show an
	// object that no parent state held or no filter accepted.
	okAny := true
	for _, p := range hist[0] {
		always := true
		for _, h := range hist {
			o, in := vFind(h, p)
			always = zzverif.And(always, in, o.obj == p.obj)
		}
		for _, f := range e.filters {
			always = zzverif.And(always, f.Accept(p.obj))
		}
		_, present := vFind(seen, p)
		okAny = zzverif.And(okAny, zzverif.Implies(always, present))
	}
	for _, o := range seen {
		known := false
		for _, h := range hist {
			for _, p := range h {
				for _, f := range e.filters {
					known = zzverif.Or(known, zzverif.And(p.obj == o.obj, f.Accept(p.obj)))
				}
			}
		}
		okAny = zzverif.And(okAny, known)
	}
	zzverif.Assert(okAny, "C08/ready-implies-synced")
	e.observe("C08")
}

func VerifC08_Immediate() { vC08(false) }
func VerifC08_Deferred()  { vC08(true) }

// VerifC08_Depth: a subscriber and a clone-of-clone below a filtered clone: at
// every depth Ready means "the filtered clone is synced" and nothing is
// delivered before it.
func VerifC08_Depth() {
	deferred := zzverif.NondetInt("deferred", 0, 1) == 1
	var f0 filter.Filter = symFilter{0}
	if deferred {
		f0 = filter.All()
	}
	e := newFilterEnv(deferred, f0, 8)
	n0 := zzverif.NondetInt("parent.n0", 0, 1)
	for i := 0; i < n0; i++ {
		e.parentChange()
	}
	fc := newFilterPublisher(vLog{}, e.fs)
	sub, err := fc.Subscribe()
	zzverif.Assert(err == nil, "harness/subscribe")
	clone, err := fc.Clone()
	zzverif.Assert(err == nil, "harness/clone")
	sub2, err := clone.Subscribe()
	zzverif.Assert(err == nil, "harness/subscribe")

	type obs struct {
		ready bool
		list  []vEnt
	}
	watch := func(s Subscription, out chan obs) {
		go func() {
			<-s.Ready()
			out <- obs{ready: true, list: vListEnts(s.Cache(), "harness/own-list")}
		}()
		go func() {
			if _, ok := <-s.Events(); ok {
				zzverif.Assert(vClosed(s.Ready()), "C08/no-event-before-ready/depth")
			}
		}()
	}
	o1, o2 := make(chan obs, 1), make(chan obs, 1)
	watch(sub, o1)
	watch(sub2, o2)

	K := zzverif.Param("K", 3)
	for i := 0; i < K; i++ {
		switch zzverif.NondetInt("action", 0, 2) {
		case 0:
			if e.pready {
				zzverif.Assume(false)
			}
			e.parentReady()
		case 1:
			e.parentChange()
		default:
			e.refilter(symFilter{1})
		}
	}
	zzverif.Quiesce()
	want := e.expectReady()
	zzverif.Assert(vClosed(fc.Ready()) == want, "C08/ready-iff-synced/clone")
	zzverif.Assert(vClosed(sub.Ready()) == want, "C08/ready-iff-synced/subscriber-of-clone")
	zzverif.Assert(vClosed(clone.Ready()) == want, "C08/ready-iff-synced/clone-of-clone")
	zzverif.Assert(vClosed(sub2.Ready()) == want, "C08/ready-iff-synced/depth-3")
	if want {
		// the caches read below the clone are the clone's (synced) cache
		own := vListEnts(e.fs.Cache(), "harness/own-list")
		zzverif.Assert(vSameContent(vListEnts(sub.Cache(), "harness/own-list"), own), "C08/ready-implies-synced/depth")
		zzverif.Assert(vSameContent(vListEnts(sub2.Cache(), "harness/own-list"), own), "C08/ready-implies-synced/depth")
		<-o1
		<-o2
		zzverif.Reach("C08/depth-ready")
	} else {
		zzverif.Reach("C08/depth-not-ready")
	}
}

// VerifC08_API: the deferred subscription as the public API builds it
// (publisher.SubscribeForFilter, which is also what CloneForFilter and every join use),
// with the concrete filters a caller is likely to hand to Refilter (accept-everything,
// accept-nothing) next to an arbitrary one. At quiescence Ready() is closed iff the parent
// is ready and a filter was supplied, and then the cache is the parent's content under
// the filter most recently set.
func VerifC08_API() {
	K := zzverif.Param("K", 3)
	e := &vFilterEnv{deferred: true, cur: filter.All()}
	e.parent = newFakeSub(4 * K)
	stop := make(chan struct{})
	e.pcache = newCache(context.Background(), vLog{}, stop, filter.Null())
	e.parent.cacheOverride = e.pcache
	n0 := zzverif.NondetInt("parent.n0", 0, zzverif.Param("P0", 1))
	for i := 0; i < n0; i++ {
		e.parentChange()
	}
	pub := newPublisher(vLog{}, e.parent)
	s, err := pub.SubscribeForFilter()
	zzverif.Assert(err == nil, "harness/subscribe")
	e.fs = s.(*filterSubscription)
	e.filters = append(e.filters, e.cur)
	go func() {
		if _, ok := <-e.fs.Events(); ok {
			zzverif.Assert(vClosed(e.fs.Ready()), "C08/no-event-before-ready")
		}
	}()
	for i := 0; i < K; i++ {
		switch zzverif.NondetInt("action", 0, 4) {
		case 0:
			if e.pready {
				zzverif.Assume(false)
			}
			e.parentReady()
		case 1:
			e.parentChange()
		case 2:
			e.refilter(filter.Null()) // accept everything
		case 3:
			e.refilter(filter.All()) // accept nothing
		default:
			e.refilter(symFilter{1})
		}
		if zzverif.NondetInt("settle", 0, 1) == 1 {
			zzverif.Quiesce()
		}
	}
	zzverif.Quiesce()
	e.observe("C08")
	if vClosed(e.fs.Ready()) {
		zzverif.Reach("C08/api-ready")
	}
}
