//go:build verif

package kcache

import (
	"context"

	pkgerrors "github.com/pkg/errors"
	"time"

	"github.com/boz/kcache/filter"
	"github.com/boz/kcache/nsname"
	"github.com/boz/kcache/zzverif"
	corev1 "k8s.io/api/core/v1"
	metav1 "k8s.io/apimachinery/pkg/apis/meta/v1"
	"k8s.io/apimachinery/pkg/runtime"
	"k8s.io/apimachinery/pkg/watch"
)

// C12: everything below Builder.Create() except the REST client. The fake
// client honours exactly the property's proviso: List and Watch may block
// arbitrarily long but return once their context is cancelled.

type vClient struct {
	listGate  chan struct{} // a token lets one List return
	watchGate chan struct{} // a token lets one Watch connect
	events    chan watch.Event
	drop      chan struct{} // a token makes the server close one open stream
	listErr   error
}

func (c *vClient) List(ctx context.Context, _ metav1.ListOptions) (runtime.Object, error) {
	select {
	case <-c.listGate:
		if c.listErr != nil {
			return nil, c.listErr
		}
		return &corev1.PodList{ListMeta: metav1.ListMeta{ResourceVersion: "10"}}, nil
	case <-ctx.Done():
		return nil, ctx.Err()
	}
}

func (c *vClient) Watch(ctx context.Context, _ metav1.ListOptions) (watch.Interface, error) {
	select {
	case <-c.watchGate:
	case <-ctx.Done():
		return nil, ctx.Err()
	}
	st := &vStream{ch: make(chan watch.Event), stopch: make(chan struct{}, 1)}
	go func() {
		defer close(st.ch)
		for {
			select {
			case ev := <-c.events:
				select {
				case st.ch <- ev:
				case <-st.stopch:
					return
				case <-ctx.Done():
					return
				}
			case <-c.drop:
				return // the server closes the stream
			case <-st.stopch:
				return
			case <-ctx.Done():
				return
			}
		}
	}()
	return st, nil
}

// The full composition (VerifC12_Full below) is far beyond what the exploration
// finishes; C12 is therefore decided per component group, each with the same
// oracle: no stuck state, Done() closes, every library goroutine exits, API
// calls return.

// VerifC12_Watcher: real watcher + sessions; resets (relists) and shutdown arrive
// while Watch() is still connecting, connected, or between reconnects.
func VerifC12_Watcher() {
	cl := &vClient{listGate: make(chan struct{}, 1), watchGate: make(chan struct{}, 4), events: make(chan watch.Event, 4), drop: make(chan struct{}, 2)}
	ctx, cancel := context.WithCancel(context.Background())
	stop := make(chan struct{})
	w := newWatcher(ctx, vLog{}, stop, cl)
	zzverif.AllowTimerFires(zzverif.Param("FIRES", 1))
	n := zzverif.NondetInt("resets", 0, zzverif.Param("RESETS", 2))
	for i := 0; i < n; i++ {
		if zzverif.NondetInt("connect", 0, 1) == 1 {
			cl.watchGate <- struct{}{} // this Watch call gets through; otherwise it blocks until cancelled
		}
		err := w.reset("10") // must return although the previous session may still be connecting
		zzverif.Assert(err == nil, "C12/api-returns/reset")
		_ = w.events()
		if zzverif.NondetInt("settle", 0, 1) == 1 {
			zzverif.Quiesce()
		}
		zzverif.Reach("C12/watcher/reset-returned")
		if zzverif.NondetInt("drop", 0, 1) == 1 {
			// the server drops the stream; the watcher reconnects after its retry delay
			cl.drop <- struct{}{}
			cl.watchGate <- struct{}{}
			zzverif.Quiesce()
			zzverif.Reach("C12/watcher/dropped")
		}
	}
	if zzverif.NondetInt("trigger", 0, 1) == 0 {
		close(stop)
	} else {
		cancel()
	}
	<-w.Done()
	zzverif.Quiesce()
	zzverif.Assert(zzverif.LiveLibGoroutines() == 0, "C12/no-leak/watcher")
	zzverif.Assert(w.reset("11") != nil, "C12/api-returns/reset-after-done")
	zzverif.Reach("C12/watcher/done")
	cancel()
}

// VerifC12_Cache: the cache actor shut down (stop channel or context) while calls are in flight.
func VerifC12_Cache() {
	ctx, cancel := context.WithCancel(context.Background())
	stop := make(chan struct{})
	c := newCache(ctx, vLog{}, stop, filter.Null())
	res := make(chan error, 4)
	go func() { _, err := c.List(); res <- err }()
	go func() { _, err := c.update(NewEvent(EventTypeCreate, vSymPod("o"))); res <- err }()
	go func() { _, err := c.sync(nil); res <- err }()
	go func() { _, err := c.Get("a", "b"); res <- err }()
	if zzverif.NondetInt("trigger", 0, 1) == 0 {
		close(stop)
	} else {
		cancel()
	}
	for i := 0; i < 4; i++ {
		err := <-res // every call returns: a result or ErrNotRunning
		if err != nil {
			zzverif.Assert(vCause(err) == ErrNotRunning, "C12/api-returns/cache")
			zzverif.Reach("C12/cache/not-running")
		}
	}
	<-c.Done()
	_, err := c.List()
	zzverif.Assert(err != nil, "C12/api-returns/cache-after-done")
	_, err = c.refilter(nil, filter.Null())
	zzverif.Assert(err != nil, "C12/api-returns/cache-after-done")
	zzverif.Quiesce()
	zzverif.Assert(zzverif.LiveLibGoroutines() == 0, "C12/no-leak/cache")
	zzverif.Reach("C12/cache/done")
	cancel()
}

// VerifC12_Publisher: Subscribe / Clone / SubscribeWithFilter racing with shutdown of the root.
func VerifC12_Publisher() {
	t := newTree(4)
	pub := t.nodes[0].pub
	if zzverif.NondetInt("existing", 0, 1) == 1 {
		t.attach(0, "sub", false)
	}
	res := make(chan bool, 1)
	kind := zzverif.NondetInt("api", 0, 2)
	go func() {
		var done <-chan struct{}
		var err error
		switch kind {
		case 0:
			var s Subscription
			s, err = pub.Subscribe()
			if err == nil {
				done = s.Done()
			}
		case 1:
			var c Controller
			c, err = pub.Clone()
			if err == nil {
				done = c.Done()
			}
		default:
			var s FilterSubscription
			s, err = pub.SubscribeWithFilter(filter.Null())
			if err == nil {
				done = s.Done()
			}
		}
		if err != nil {
			zzverif.Assert(vCause(err) == ErrNotRunning, "C12/racing-subscribe/not-running")
			zzverif.Reach("C12/publisher/not-running")
		} else {
			<-done // an object handed out while shutting down is itself shut down
			zzverif.Reach("C12/publisher/object-shut-down")
		}
		res <- true
	}()
	if zzverif.NondetInt("how", 0, 1) == 0 {
		t.root.Close()
	} else {
		pub.Close()
	}
	<-res
	<-pub.Done()
	zzverif.Quiesce()
	_, err := pub.Subscribe()
	zzverif.Assert(err != nil, "C12/api-returns/subscribe-after-done")
	zzverif.Assert(zzverif.LiveLibGoroutines() <= 3, "C12/no-leak/publisher") // the harness' parent cache actor (3 goroutines) is not part of the tree
	zzverif.Reach("C12/publisher/done")
}

// VerifC12_Controller: the real controller loop with its real cache: every
// shutdown trigger at every point of a short workload.
func VerifC12_Controller() {
	e := newCtlEnv(8)
	progress := zzverif.NondetInt("progress", 0, 2)
	if progress >= 1 {
		pl, _ := vSymPodList(1)
		e.l.resultch <- listResult{list: pl}
	}
	if progress >= 2 {
		e.w.evch <- NewEvent(EventTypeCreate, vSymPod("w"))
	}
	if zzverif.NondetInt("settle", 0, 1) == 1 {
		zzverif.Quiesce()
	}
	racer := make(chan bool, 1)
	go func() {
		_, err := e.c.Cache().List()
		if err != nil {
			zzverif.Assert(vCause(err) == ErrNotRunning, "C12/api-returns/cache")
		}
		racer <- true
	}()
	switch zzverif.NondetInt("trigger", 0, 3) {
	case 3:
		// a list that fails with a cancellation error of its own (nothing was cancelled here)
		e.l.resultch <- listResult{err: pkgerrors.Wrap(context.Canceled, "client list")}
		<-e.c.Done()
		zzverif.Reach("C12/controller/list-cancelled-error")
	case 0:
		e.c.Close()
		zzverif.Assert(vClosed(e.c.Done()), "C12/no-hang/close-returns-after-done")
	case 1:
		d := make(chan bool, 1)
		go func() { e.c.Close(); d <- true }()
		e.c.Close()
		<-d
		zzverif.Reach("C12/controller/concurrent-close")
	default:
		e.l.resultch <- listResult{err: vInjected}
		<-e.c.Done()
		zzverif.Reach("C12/controller/list-error")
	}
	<-racer
	e.c.Close() // repeated Close returns
	zzverif.Quiesce()
	zzverif.Assert(vClosed(e.c.Done()), "C12/no-hang")
	zzverif.Assert(zzverif.LiveLibGoroutines() == 0, "C12/no-leak/controller")
	zzverif.Reach("C12/controller/done")
}

// VerifC12_Lister: lister + ticker shutdown at every point of the list/tick cycle (same body as C13).
func VerifC12_Lister() { vListerCycle("C12/lister") }

func VerifC12_Full() {
	cl := &vClient{listGate: make(chan struct{}, 4), watchGate: make(chan struct{}, 4), events: make(chan watch.Event, 4), drop: make(chan struct{}, 2)}
	ctx, cancel := context.WithCancel(context.Background())
	b := NewBuilder().Context(ctx).Log(vLog{}).Client(cl)
	b.Lister().RefreshPeriod(time.Duration(10))
	c, err := b.Create()
	zzverif.Assert(err == nil, "harness/create")
	zzverif.AllowTimerFires(zzverif.Param("FIRES", 1))

	// how far the workload gets before shutdown is the scenario; where exactly the
	// components are at that moment is the schedule
	progress := zzverif.NondetInt("progress", 0, zzverif.Param("PROGRESS", 3))
	var sub Subscription
	var mon Monitor
	if progress >= 1 {
		cl.listGate <- struct{}{} // the first list may return
	}
	if progress >= 2 {
		cl.watchGate <- struct{}{} // the watch may connect
		var e2 error
		sub, e2 = c.Subscribe()
		zzverif.Assert(e2 == nil, "harness/subscribe")
		mon, e2 = NewMonitor(c, vMonHandler{make(chan Event, 8)})
		zzverif.Assert(e2 == nil, "harness/monitor")
	}
	if progress >= 3 {
		p := vSymPod("w")
		p.ResourceVersion = "11"
		cl.events <- watch.Event{Type: watch.Added, Object: p}
		cl.listGate <- struct{}{} // a relist may return
	}
	if zzverif.NondetInt("settle", 0, 1) == 1 {
		zzverif.Quiesce()
	}

	// API calls racing with shutdown
	racer := make(chan bool, 1)
	go func() {
		s, err := c.Subscribe()
		if err == nil {
			// an object obtained while racing with shutdown is itself shut down eventually
			<-s.Done()
		} else {
			zzverif.Assert(err != nil, "C12/racing-subscribe")
		}
		_, _ = c.Cache().List()
		racer <- true
	}()

	trigger := zzverif.NondetInt("trigger", 0, 3)
	switch trigger {
	case 0:
		c.Close()
		zzverif.Assert(vClosed(c.Done()), "C12/no-hang/close-returns-after-done")
	case 1:
		done2 := make(chan bool, 1)
		go func() { c.Close(); done2 <- true }()
		c.Close()
		<-done2
	case 2:
		cancel()
		<-c.Done()
	default:
		cl.listErr = vInjected
		cl.listGate <- struct{}{}
		cl.listGate <- struct{}{}
		if progress >= 1 {
			// a further list needs a tick: only explored when the timer budget allows it
		}
		<-c.Done()
	}
	<-racer
	zzverif.Quiesce()
	zzverif.Assert(vClosed(c.Done()), "C12/no-hang")
	if sub != nil {
		zzverif.Assert(vClosed(sub.Done()), "C12/subtree-done")
		zzverif.Assert(vClosed(mon.Done()), "C12/subtree-done")
	}
	// once the root is done every API call returns a result or ErrNotRunning
	_, e1 := c.Subscribe()
	zzverif.Assert(e1 != nil, "C12/api-returns/subscribe-after-done")
	_, e2 := c.Clone()
	zzverif.Assert(e2 != nil, "C12/api-returns/clone-after-done")
	_, e3 := c.CloneWithFilter(filter.Null())
	zzverif.Assert(e3 != nil, "C12/api-returns/clone-after-done")
	_, _ = c.Cache().List()
	_, _ = c.Cache().Get("a", "b")
	c.Close()
	zzverif.Assert(zzverif.LiveLibGoroutines() == 0, "C12/no-leak")
	zzverif.Reach("C12/shutdown-complete")
	if trigger == 3 {
		zzverif.Reach("C12/list-error")
	}
	cancel()
}

// VerifC12_NotReady: shutdown while the root is still waiting for its first list.
// Every kind of filtered node (and an unfiltered one) hanging off a publisher whose
// parent never became ready terminates when the root or the publisher is closed:
// its Done() closes, its goroutines exit, and the API answers ErrNotRunning afterwards.
func VerifC12_NotReady() {
	t := newTreeR(4, false)
	pub := t.nodes[0].pub
	var done <-chan struct{}
	var refilt func(filter.Filter) error
	var sub func() error
	switch zzverif.NondetInt("node", 0, 4) {
	case 0:
		s, err := pub.Subscribe()
		zzverif.Assert(err == nil, "harness/attach")
		done = s.Done()
	case 1:
		s, err := pub.SubscribeWithFilter(filter.Null())
		zzverif.Assert(err == nil, "harness/attach")
		done, refilt = s.Done(), s.Refilter
	case 2:
		s, err := pub.SubscribeForFilter()
		zzverif.Assert(err == nil, "harness/attach")
		done, refilt = s.Done(), s.Refilter
	case 3:
		c, err := pub.CloneWithFilter(filter.Null())
		zzverif.Assert(err == nil, "harness/attach")
		done, refilt = c.Done(), c.Refilter
		sub = func() error { _, err := c.Subscribe(); return err }
	default:
		c, err := pub.CloneForFilter()
		zzverif.Assert(err == nil, "harness/attach")
		done, refilt = c.Done(), c.Refilter
		sub = func() error { _, err := c.Subscribe(); return err }
	}
	if refilt != nil && zzverif.NondetInt("refilter-first", 0, 1) == 1 {
		zzverif.Assert(refilt(filter.NSName(nsname.New("ns", "a"))) == nil, "harness/refilter")
	}
	if zzverif.NondetInt("settle", 0, 1) == 1 {
		zzverif.Quiesce()
	}
	if zzverif.NondetInt("how", 0, 1) == 0 {
		t.root.Close()
	} else {
		pub.Close()
	}
	<-done // the node terminates although its parent never became ready
	<-pub.Done()
	zzverif.Quiesce()
	if refilt != nil {
		zzverif.Assert(vCause(refilt(filter.All())) == ErrNotRunning, "C12/api-returns/refilter-after-done")
	}
	if sub != nil {
		zzverif.Assert(vCause(sub()) == ErrNotRunning, "C12/api-returns/subscribe-after-done")
	}
	zzverif.Assert(zzverif.LiveLibGoroutines() <= 3, "C12/no-leak/not-ready") // the harness' parent cache actor
	zzverif.Reach("C12/not-ready/done")
}
