//go:build verif

package kcache

import (
	"context"
	"fmt"
	"time"

	"github.com/boz/kcache/zzverif"
	corev1 "k8s.io/api/core/v1"
	metav1 "k8s.io/apimachinery/pkg/apis/meta/v1"
	"k8s.io/apimachinery/pkg/runtime"
)

// C13: the real lister and ticker against the engine's timer model. Timer
// fires are environment transitions, so every ratio of list latency, period
// and consumption delay within the cycle bound is a schedule.

// vNextPeriod replaces (*_ticker).nextPeriod (float64 jitter: out of solver reach,
// see DESIGN): every arming gets an arbitrary duration of at least vMinPeriod().
func vNextPeriod(t *_ticker) time.Duration {
	d := zzverif.NondetInt64("period")
	zzverif.Assume(zzverif.And(d >= int(t.period), d <= 1<<40))
	return time.Duration(d)
}

type vListReply struct {
	obj runtime.Object
	err error
}

type vListClient struct {
	release chan vListReply
	starts  chan int      // logical start time of every List call
	busy    chan struct{} // capacity 1: held while a List call is running
	cancels chan struct{} // one token per call that ended by context cancellation
}

func newListClient() *vListClient {
	return &vListClient{release: make(chan vListReply), starts: make(chan int, 16), busy: make(chan struct{}, 1), cancels: make(chan struct{}, 16)}
}

func (c *vListClient) List(ctx context.Context, _ metav1.ListOptions) (runtime.Object, error) {
	select {
	case c.busy <- struct{}{}:
	default:
		zzverif.Assert(false, "C13/one-at-a-time")
		c.busy <- struct{}{}
	}
	c.starts <- zzverif.Now()
	select {
	case r := <-c.release:
		<-c.busy
		return r.obj, r.err
	case <-ctx.Done():
		<-c.busy
		c.cancels <- struct{}{}
		return nil, ctx.Err()
	}
}

func VerifC13_Lister() { vListerCycle("C13") }

func vListerCycle(P string) {
	cycles := zzverif.Param("CYCLES", 3)
	cl := newListClient()
	stop := make(chan struct{})
	vPeriod := zzverif.NondetInt64("minperiod") // the configured period: any value
	zzverif.Assume(zzverif.And(vPeriod >= 1, vPeriod <= 1<<40))
	l := newLister(context.Background(), vLog{}, stop, time.Duration(vPeriod), cl)
	zzverif.AllowTimerFires(zzverif.Param("FIRES", 4))

	consumedAt, consumed := 0, false
	n := zzverif.NondetInt("cycles", 0, cycles)
	for k := 0; k < n; k++ {
		// a list call is (or gets) in flight: let it return
		cl.release <- vListReply{obj: &corev1.PodList{}}
		start := <-cl.starts
		if consumed {
			zzverif.Assert(start >= consumedAt+vPeriod, P+"/not-before-timer")
			zzverif.Reach(P + "/relisted")
		}
		// a lower bound of the consumption time: the clock read just before consuming
		before := zzverif.Now()
		r := <-l.Result()
		zzverif.Assert(r.err == nil, P+"/result")
		consumedAt, consumed = before, true
	}
	// shutdown at this point of the list/tick cycle (the schedule decides how far the next cycle got)
	if zzverif.NondetInt("shutdown", 0, 1) == 1 {
		close(stop)
		zzverif.Quiesce()
		zzverif.Assert(vClosed(l.Done()), P+"/prompt-shutdown")
		zzverif.Assert(zzverif.LiveLibGoroutines() == 0, P+"/prompt-shutdown/goroutines-exit")
		zzverif.Reach(P + "/shutdown")
		return
	}
	zzverif.Quiesce()
	zzverif.Assert(!vClosed(l.Done()), P+"/keeps-listing/alive")
	zzverif.Reach(P + "/running")
}

// VerifC14_Lister: the real lister reports every kind of failed list call to the
// controller (which stops on it): a plain client error, an error that happens to
// be or wrap context.Canceled although nothing was cancelled, a non-list object.
func VerifC14_Lister() {
	cl := newListClient()
	stop := make(chan struct{})
	l := newLister(context.Background(), vLog{}, stop, time.Duration(1000), cl)
	zzverif.AllowTimerFires(2)
	k := zzverif.NondetInt("k", 1, zzverif.Param("KMAX", 2))
	for i := 1; i < k; i++ {
		cl.release <- vListReply{obj: &corev1.PodList{}}
		<-cl.starts
		r := <-l.Result()
		zzverif.Assert(r.err == nil, "C14/lister/ok-result")
	}
	var reply vListReply
	kind := zzverif.NondetInt("failure", 0, 3)
	switch kind {
	case 0:
		reply = vListReply{err: vInjected}
	case 1:
		reply = vListReply{err: context.Canceled} // the server / transport reports a cancellation of its own
	case 2:
		reply = vListReply{err: fmt.Errorf("list pods: %w", context.Canceled)}
	default:
		reply = vListReply{obj: &vNoMeta{}}
	}
	cl.release <- reply
	<-cl.starts
	if zzverif.NondetInt("slow-controller", 0, 1) == 1 {
		// the controller is busy for longer than a refresh period before it takes the result:
		// the failed result must still be the one it gets (no list may start meanwhile)
		zzverif.Quiesce()
		select {
		case cl.release <- vListReply{obj: &corev1.PodList{}}:
			<-cl.starts
			zzverif.Quiesce()
		default:
		}
		zzverif.Reach("C14/lister-slow-controller")
	}
	r := <-l.Result() // a failure that is never handed over leaves the controller running on a cache it cannot refresh
	zzverif.Assert(r.err != nil, "C14/lister/failure-reported")
	if kind == 0 {
		zzverif.Assert(vCause(r.err) == vInjected, "C14/lister/cause")
	}
	zzverif.Reach("C14/lister-failure")
	close(stop)
	zzverif.Quiesce()
	zzverif.Assert(vClosed(l.Done()), "C14/lister/done")
}
