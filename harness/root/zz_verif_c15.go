//go:build verif

package kcache

import (
	"context"

	"github.com/boz/kcache/filter"
	"github.com/boz/kcache/zzverif"
	metav1 "k8s.io/apimachinery/pkg/apis/meta/v1"
)

// C15: the real cache actor with one writer moving through distinguishable
// complete states S0=∅ -> S1 -> S2 -> S3 and concurrent readers. Every List()
// must be exactly one of the states (never a half-applied relist), not older
// than a write the reader already knew to be complete, and successive reads of
// one reader never go backwards. The engine's vector-clock check reports any
// unsynchronised access to the cache's state.

func vStateIndex(l []metav1.Object, states [][]metav1.Object, label string) int {
	for k, st := range states {
		if len(l) != len(st) {
			continue
		}
		all := true
		for _, o := range st {
			found := false
			for _, x := range l {
				if x == o {
					found = true
				}
			}
			if !found {
				all = false
			}
		}
		if all {
			return k
		}
	}
	zzverif.Assert(false, label)
	return -1
}

func VerifC15_Cache() {
	W := zzverif.Param("WRITES", 3)
	R := zzverif.Param("READS", 2)
	readers := zzverif.Param("READERS", 2)
	stop := make(chan struct{})
	c := newCache(context.Background(), vLog{}, stop, filter.Null())

	// distinguishable complete states over pairwise distinct keys
	var all []vEnt
	states := [][]metav1.Object{nil}
	for k := 1; k <= W; k++ {
		var st []metav1.Object
		for j := 0; j < 2; j++ {
			p := vSymPod("s")
			zzverif.Assume(zzverif.AtoiOK(p.ResourceVersion))
			e := vEntOf(p)
			for _, q := range all {
				zzverif.Assume(zzverif.Not(vSameKey(e, q)))
			}
			all = append(all, e)
			st = append(st, p)
		}
		states = append(states, st)
	}

	completed := make(chan int, W) // writer -> anyone: write k has returned
	done := make(chan bool, readers+1)

	go func() { // the writer
		for k := 1; k <= W; k++ {
			var err error
			if k%2 == 1 {
				_, err = c.sync(states[k])
			} else {
				_, err = c.refilter(states[k], filter.Null())
			}
			zzverif.Assert(err == nil, "harness/write")
			completed <- k
		}
		done <- true
	}()

	for r := 0; r < readers; r++ {
		go func() {
			last, known := 0, 0
			for i := 0; i < R; i++ {
				// learn about completed writes (optional, decided by the scheduler)
				select {
				case k := <-completed:
					if k > known {
						known = k
					}
				default:
				}
				l, err := c.List()
				zzverif.Assert(err == nil, "harness/read")
				idx := vStateIndex(l, states, "C15/snapshot/atomic")
				if idx >= 0 {
					zzverif.Assert(idx >= known, "C15/snapshot/not-older-than-completed-write")
					zzverif.Assert(idx >= last, "C15/monotone")
					last = idx
					// Get agrees with a state at least as new
					if idx > 0 {
						o := states[idx][0]
						g, err := c.Get(o.GetNamespace(), o.GetName())
						zzverif.Assert(err == nil, "harness/read")
						if g != nil {
							zzverif.Assert(g == o, "C15/get")
						}
					}
				}
				// the returned slice belongs to the caller
				for j := range l {
					l[j] = nil
				}
			}
			done <- true
		}()
	}
	for i := 0; i < readers+1; i++ {
		<-done
	}
	final, err := c.List()
	zzverif.Assert(err == nil, "harness/read")
	zzverif.Assert(vStateIndex(final, states, "C15/own-slice") == W, "C15/own-slice")
	zzverif.Reach("C15/done")
}

// VerifC15_Refilter: reads of a filtered subscription's cache concurrent with a
// Refilter see the complete view of the old filter or of the new one, never a
// half-applied refilter.
func VerifC15_Refilter() {
	e := newFilterEnv(false, symFilter{0}, 8)
	n := zzverif.NondetInt("parent.n", 1, zzverif.Param("P", 2))
	for i := 0; i < n; i++ {
		e.parentChange()
	}
	e.parentReady()
	zzverif.Quiesce()
	par := vListEnts(e.pcache, "harness/parent-list")
	seen := make(chan []vEnt, 2)
	for r := 0; r < zzverif.Param("READERS", 1); r++ {
		go func() { seen <- vListEnts(e.fs.Cache(), "harness/own-list") }()
	}
	e.refilter(symFilter{1})
	for r := 0; r < zzverif.Param("READERS", 1); r++ {
		l := <-seen
		isOld, isNew := true, true
		cntOld, cntNew := 0, 0
		for _, p := range par {
			_, in := vFind(l, p)
			a0, a1 := (symFilter{0}).Accept(p.obj), (symFilter{1}).Accept(p.obj)
			isOld = zzverif.And(isOld, zzverif.Iff(in, a0))
			isNew = zzverif.And(isNew, zzverif.Iff(in, a1))
			if a0 {
				cntOld++
			}
			if a1 {
				cntNew++
			}
		}
		zzverif.Assert(zzverif.Or(zzverif.And(isOld, len(l) == cntOld), zzverif.And(isNew, len(l) == cntNew)), "C15/snapshot/refilter-atomic")
	}
	zzverif.Quiesce()
	zzverif.Reach("C15/refilter")
}
