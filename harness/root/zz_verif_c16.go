//go:build verif

package kcache

import (
	"github.com/boz/kcache/filter"
	"github.com/boz/kcache/zzverif"
	pkgerrors "github.com/pkg/errors"
	metav1 "k8s.io/apimachinery/pkg/apis/meta/v1"
)

// C16: monitor callbacks. Real NewMonitor / monitor.run against a fake
// subscription; the environment performs K actions in any order.

type vCall struct {
	kind string // init create update delete
	obj  metav1.Object
	objs []metav1.Object
}

type vRecHandler struct {
	calls []vCall
	busy  chan struct{} // capacity 1: held while a callback is running
	monch chan Monitor  // the monitor, once NewMonitor has returned
}

func (h *vRecHandler) enter(c vCall) {
	select {
	case h.busy <- struct{}{}:
	default:
		zzverif.Assert(false, "C16/serial") // another callback is still running
		h.busy <- struct{}{}
	}
	select {
	case m := <-h.monch:
		h.monch <- m
		zzverif.Assert(!vClosed(m.Done()), "C16/silent-after-done")
	default:
	}
	h.calls = append(h.calls, c)
	zzverif.Yield() // a handler may take arbitrarily long: anything can happen meanwhile
	<-h.busy
}
func (h *vRecHandler) OnInitialize(objs []metav1.Object) { h.enter(vCall{kind: "init", objs: objs}) }
func (h *vRecHandler) OnCreate(o metav1.Object)          { h.enter(vCall{kind: "create", obj: o}) }
func (h *vRecHandler) OnUpdate(o metav1.Object)          { h.enter(vCall{kind: "update", obj: o}) }
func (h *vRecHandler) OnDelete(o metav1.Object)          { h.enter(vCall{kind: "delete", obj: o}) }

func VerifC16_Monitor() {
	K := zzverif.Param("K", 4)
	sub := newFakeSub(K)
	p0 := vSymPod("init")
	if zzverif.NondetInt("content", 0, 1) == 1 {
		sub.content = []metav1.Object{p0}
	}
	listFails := zzverif.NondetInt("list-fails", 0, 1) == 1
	if listFails {
		// the cache below the subscription has already stopped when readiness is signalled
		sub.listErr = pkgerrors.WithStack(ErrNotRunning)
	}
	h := &vRecHandler{busy: make(chan struct{}, 1), monch: make(chan Monitor, 1)}
	m, err := NewMonitor(&vFakePublisher{sub: sub}, h)
	zzverif.Assert(err == nil, "C16/new")
	h.monch <- m

	var sent []Event
	ready, closedSub, closedMon := false, false, false
	for i := 0; i < K; i++ {
		switch zzverif.NondetInt("action", 0, 3) {
		case 0:
			if ready {
				zzverif.Assume(false)
			}
			ready = true
			close(sub.readych)
		case 1:
			if closedSub || closedMon || (listFails && ready) {
				zzverif.Assume(false) // a closed subscription delivers nothing more
			}
			ev := NewEvent(EventType(zzverif.NondetString("etype")), vSymPod("e"))
			sent = append(sent, ev)
			sub.evch <- ev
		case 2:
			if closedSub {
				zzverif.Assume(false)
			}
			closedSub = true
			sub.Close()
		default:
			if closedMon {
				zzverif.Assume(false)
			}
			closedMon = true
			m.Close()
		}
	}
	zzverif.Quiesce()

	calls := h.calls
	if listFails {
		// the content at readiness could not be read: no callback at all, and the monitor stops
		zzverif.Assert(len(calls) == 0, "C16/no-callback-if-content-unreadable")
		if ready {
			zzverif.Assert(vClosed(m.Done()), "C16/done-after-list-error")
			if !closedSub && !closedMon {
				zzverif.Assert(m.Error() != nil, "C16/done-after-list-error")
			}
			zzverif.Reach("C16/list-error")
		}
		return
	}
	// initialize: at most once, first, with the cache content at readiness
	ninit := 0
	for i, c := range calls {
		if c.kind == "init" {
			ninit++
			zzverif.Assert(i == 0, "C16/init-once-first")
			zzverif.Assert(len(c.objs) == len(sub.content), "C16/init-content")
			if len(c.objs) == 1 && len(sub.content) == 1 {
				zzverif.Assert(c.objs[0] == sub.content[0], "C16/init-content")
			}
		}
	}
	zzverif.Assert(ninit <= 1, "C16/init-once-first")
	if len(calls) > 0 {
		zzverif.Assert(calls[0].kind == "init", "C16/init-once-first")
		zzverif.Assert(ready, "C16/no-callback-if-never-ready")
	}
	if !ready {
		zzverif.Assert(len(calls) == 0, "C16/no-callback-if-never-ready")
		zzverif.Reach("C16/never-ready")
	}
	// one callback per received event, matching type and object, in order
	var want []vCall
	for _, ev := range sent {
		switch ev.Type() {
		case EventTypeCreate:
			want = append(want, vCall{kind: "create", obj: ev.Resource()})
		case EventTypeUpdate:
			want = append(want, vCall{kind: "update", obj: ev.Resource()})
		case EventTypeDelete:
			want = append(want, vCall{kind: "delete", obj: ev.Resource()})
		}
	}
	got := calls
	if ninit == 1 && len(calls) > 0 {
		got = calls[1:]
	}
	zzverif.Assert(len(got) <= len(want), "C16/one-per-event")
	for i := range got {
		if i < len(want) {
			zzverif.Assert(got[i].kind == want[i].kind, "C16/one-per-event")
			zzverif.Assert(got[i].obj == want[i].obj, "C16/one-per-event")
		}
	}
	if ready && !closedSub && !closedMon {
		// nothing was shut down: every event is delivered
		zzverif.Assert(ninit == 1, "C16/init-once-first")
		zzverif.Assert(len(got) == len(want), "C16/one-per-event/all-delivered")
		zzverif.Assert(!vClosed(m.Done()), "C16/alive")
		zzverif.Reach("C16/all-delivered")
	}
	if closedSub || closedMon {
		zzverif.Assert(vClosed(m.Done()), "C16/done-after-close")
		zzverif.Reach("C16/closed")
	}
	if len(got) > 0 {
		zzverif.Reach("C16/callbacks")
	}
}

// VerifC16_Filtered: a monitor on a REAL filtered publisher (CloneWithFilter /
// CloneForFilter: filterSubscription + private cache + publisher) whose root shuts down
// before it ever became ready: no callback runs at all, whichever of the root, the
// filtered publisher or the monitor is closed, and in every interleaving of the
// monitor's readiness wait with the shutdown of the filter's cache.
func VerifC16_Filtered() {
	t := newTreeR(4, false)
	var fc FilterController
	var err error
	if zzverif.NondetInt("deferred", 0, 1) == 0 {
		fc, err = t.nodes[0].pub.CloneWithFilter(filter.Null())
	} else {
		fc, err = t.nodes[0].pub.CloneForFilter()
	}
	zzverif.Assert(err == nil, "harness/attach")
	h := &vRecHandler{busy: make(chan struct{}, 1), monch: make(chan Monitor, 1)}
	m, err := NewMonitor(fc, h)
	zzverif.Assert(err == nil, "C16/new")
	h.monch <- m
	if zzverif.NondetInt("refilter", 0, 1) == 1 {
		zzverif.Assert(fc.Refilter(symFilter{1}) == nil, "harness/refilter")
	}
	if zzverif.NondetInt("settle", 0, 1) == 1 {
		zzverif.Quiesce()
	}
	switch zzverif.NondetInt("how", 0, 2) {
	case 0:
		t.root.Close()
	case 1:
		fc.Close()
	default:
		m.Close()
	}
	<-m.Done()
	zzverif.Quiesce()
	zzverif.Assert(len(h.calls) == 0, "C16/no-callback-if-never-ready")
	zzverif.Reach("C16/filtered-never-ready")
}
