//go:build verif

package kcache

import (
	"context"
	logutil "github.com/boz/go-logutil"
	"github.com/boz/kcache/filter"
	"github.com/boz/kcache/zzverif"
	corev1 "k8s.io/api/core/v1"
	metav1 "k8s.io/apimachinery/pkg/apis/meta/v1"
)

// vLog is the no-op logger injected into every component under test.
type vLog struct{}

func (l vLog) WithComponent(string) logutil.Log                     { return l }
func (l vLog) Trace(string, ...interface{}) string                  { return "" }
func (l vLog) Un(string)                                            {}
func (l vLog) Debugf(string, ...interface{})                        { zzverif.Perturb() }
func (l vLog) Infof(string, ...interface{})                         {}
func (l vLog) Warnf(string, ...interface{})                         {}
func (l vLog) Errorf(string, ...interface{})                        {}
func (l vLog) Fatalf(string, ...interface{})                        {}
func (l vLog) ErrWarn(err error, _ string, _ ...interface{}) error  { return err }
func (l vLog) ErrFatal(err error, _ string, _ ...interface{}) error { return err }
func (l vLog) Err(err error, _ string, _ ...interface{}) error      { return err }

// symFilter is an arbitrary pure filter: Accept is an uninterpreted function of
// (filter id, namespace, name, resourceVersion).
type symFilter struct{ id int }

func (f symFilter) Accept(o metav1.Object) bool {
	// like every non-trivial library filter, dereferences its argument
	return zzverif.UFBool("accept", f.id, o.GetNamespace(), o.GetName(), o.GetResourceVersion())
}

func (f symFilter) Equals(other filter.Filter) bool {
	o, ok := other.(symFilter)
	return ok && o.id == f.id
}

// ncFilter is an arbitrary filter that is not comparable (like filter.FN).
type ncFilter struct{ id int }

func (f ncFilter) Accept(o metav1.Object) bool {
	return zzverif.UFBool("accept", f.id, o.GetNamespace(), o.GetName(), o.GetResourceVersion())
}

func vSymPod(tag string) *corev1.Pod {
	return &corev1.Pod{ObjectMeta: metav1.ObjectMeta{
		Namespace:       zzverif.NondetString(tag + ".ns"),
		Name:            zzverif.NondetString(tag + ".name"),
		ResourceVersion: zzverif.NondetString(tag + ".rv"),
	}}
}

// vEnt is one entry of the ghost (reference) cache content.
type vEnt struct {
	ns, name string
	ver      int
	obj      metav1.Object
}

func vSameKey(a, b vEnt) bool { return zzverif.And(a.ns == b.ns, a.name == b.name) }

func vEntOf(o metav1.Object) vEnt {
	return vEnt{o.GetNamespace(), o.GetName(), zzverif.AtoiVal(o.GetResourceVersion()), o}
}

// vSymCache builds a cache in an arbitrary state satisfying the representation
// invariant Inv: keys pairwise distinct, key = (ns,name) of the object,
// version = Atoi(resourceVersion) (parseable), object accepted by the filter.
func vSymCache(maxN int, f filter.Filter) (*_cache, []vEnt) {
	c := &_cache{filter: f, items: make(map[cacheKey]cacheEntry), log: vLog{}}
	n := zzverif.NondetInt("cache.n", 0, maxN)
	var pre []vEnt
	for i := 0; i < n; i++ {
		p := vSymPod("c")
		zzverif.Assume(zzverif.AtoiOK(p.ResourceVersion))
		e := vEntOf(p)
		for _, q := range pre {
			zzverif.Assume(zzverif.Not(vSameKey(e, q)))
		}
		zzverif.Assume(f.Accept(p))
		c.items[cacheKey{e.ns, e.name}] = cacheEntry{e.ver, p}
		pre = append(pre, e)
	}
	return c, pre
}

// vSnapshot reads the real cache content back as ghost entries (order: map order).
func vSnapshot(c *_cache) []vEnt {
	var out []vEnt
	for k, e := range c.items {
		out = append(out, vEnt{k.namespace, k.name, e.version, e.object})
	}
	return out
}

func vFind(s []vEnt, k vEnt) (vEnt, bool) {
	for _, e := range s {
		if vSameKey(e, k) {
			return e, true
		}
	}
	return vEnt{}, false
}

// vReplayEvents applies events in order to a copy of pre, asserting
// well-formedness (property C02), and returns the result.
func vReplayEvents(pre []vEnt, events []Event) []vEnt {
	return vReplayEventsL(pre, events, "C02/wellformed")
}

func vReplayEventsL(pre []vEnt, events []Event, L string) []vEnt {
	cur := append([]vEnt{}, pre...)
	for _, ev := range events {
		o := ev.Resource()
		zzverif.Assert(o != nil, L+"/nil-object")
		k := vEntOf(o)
		idx := -1
		for i, e := range cur {
			if vSameKey(e, k) {
				idx = i
				break
			}
		}
		switch ev.Type() {
		case EventTypeCreate:
			zzverif.Assert(idx < 0, L+"/create-on-present")
			zzverif.Assert(zzverif.AtoiOK(o.GetResourceVersion()), L+"/unparseable")
			if idx < 0 {
				cur = append(cur, k)
			} else {
				cur[idx] = k
			}
		case EventTypeUpdate:
			zzverif.Assert(idx >= 0, L+"/update-on-absent")
			zzverif.Assert(zzverif.AtoiOK(o.GetResourceVersion()), L+"/unparseable")
			if idx >= 0 {
				zzverif.Assert(k.ver > cur[idx].ver, L+"/update-not-newer")
				cur[idx] = k
			} else {
				cur = append(cur, k)
			}
		case EventTypeDelete:
			zzverif.Assert(idx >= 0, L+"/delete-on-absent")
			if idx >= 0 {
				cur = append(cur[:idx:idx], cur[idx+1:]...)
			}
		default:
			zzverif.Assert(false, L+"/unknown-type")
		}
	}
	return cur
}

// vSameContent: a and b hold the same keys with the same objects and versions.
func vSameContent(a, b []vEnt) bool {
	if len(a) != len(b) {
		return false
	}
	for _, e := range a {
		f, ok := vFind(b, e)
		if !ok {
			return false
		}
		if f.obj != e.obj {
			return false
		}
		if f.ver != e.ver {
			return false
		}
	}
	return true
}

// vCheckInv asserts the representation invariant on the real cache.
func vCheckInv(c *_cache, label string) {
	for k, e := range c.items {
		o := e.object
		zzverif.Assert(o != nil, label+"/nil-object")
		zzverif.Assert(zzverif.And(k.namespace == o.GetNamespace(), k.name == o.GetName()), label+"/key")
		zzverif.Assert(zzverif.AtoiOK(o.GetResourceVersion()), label+"/version-parseable")
		zzverif.Assert(e.version == zzverif.AtoiVal(o.GetResourceVersion()), label+"/version")
		zzverif.Assert(c.filter.Accept(o), label+"/accepted")
	}
}

// vDefaultLog / vLogFromCtx replace go-logutil's Default / FromContextOrDefault.
func vDefaultLog() logutil.Log                    { return vLog{} }
func vLogFromCtx(ctx context.Context) logutil.Log { return vLog{} }
