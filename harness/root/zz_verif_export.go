//go:build verif

package kcache

import (
	"github.com/boz/kcache/zzverif"
	metav1 "k8s.io/apimachinery/pkg/apis/meta/v1"
)

// VTree exposes the publisher-tree environment (a real publisher over a fake
// root subscription whose cache is a real cache actor) to harnesses of other
// packages (join). Verification only.
type VTree struct{ t *vTree }

func VNewTree(bufsz int, ready bool) *VTree { return &VTree{newTreeR(bufsz, ready)} }

// Publisher is the real root publisher of the tree.
func (v *VTree) Publisher() Controller { return v.t.nodes[0].pub }

// Create adds an object to the root's cache and, once the root is ready,
// publishes the resulting event like a controller does.
// Update replaces an object of the root's cache by a newer version and, once the root
// is ready, publishes the resulting event.
func (v *VTree) Update(o metav1.Object) {
	ev := NewEvent(EventTypeUpdate, o)
	out, err := v.t.pcache.update(ev)
	zzverif.Assert(err == nil && len(out) == 1, "harness/parent-update")
	if vClosed(v.t.root.readych) {
		v.t.root.evch <- out[0]
	}
}

func (v *VTree) Create(o metav1.Object) {
	ev := NewEvent(EventTypeCreate, o)
	out, err := v.t.pcache.update(ev)
	zzverif.Assert(err == nil && len(out) == 1, "harness/parent-update")
	if vClosed(v.t.root.readych) {
		v.t.root.evch <- ev
	}
}

func (v *VTree) MakeReady()    { close(v.t.root.readych) }
func (v *VTree) IsReady() bool { return vClosed(v.t.root.readych) }
