//go:build verif

package kcache

import (
	"github.com/boz/kcache/filter"
	"github.com/boz/kcache/zzverif"
	metav1 "k8s.io/apimachinery/pkg/apis/meta/v1"
)

// vFakeSub is a Subscription whose channels are driven by the harness
// environment. Close() behaves like a real subscription's: Events() is closed
// and Done() closes (idempotent, asynchronous).
type vFakeSub struct {
	readych       chan struct{}
	evch          chan Event
	donech        chan struct{}
	closech       chan struct{}
	content       []metav1.Object // ghost cache content returned by Cache().List()
	lists         int             // number of List() calls
	listErr       error
	cacheOverride CacheReader
}

func newFakeSub(bufsz int) *vFakeSub {
	s := &vFakeSub{
		readych: make(chan struct{}),
		evch:    make(chan Event, bufsz),
		donech:  make(chan struct{}),
		closech: make(chan struct{}, 1),
	}
	go func() {
		<-s.closech
		close(s.evch)
		close(s.donech)
	}()
	return s
}

func (s *vFakeSub) Cache() CacheReader {
	if s.cacheOverride != nil {
		return s.cacheOverride
	}
	return vFakeCache{s}
}
func (s *vFakeSub) Ready() <-chan struct{} { return s.readych }
func (s *vFakeSub) Events() <-chan Event   { return s.evch }
func (s *vFakeSub) Done() <-chan struct{}  { return s.donech }
func (s *vFakeSub) Error() error           { return nil }
func (s *vFakeSub) Close() {

	select {
	case s.closech <- struct{}{}:
	default:
	}
}

type vFakeCache struct{ s *vFakeSub }

func (c vFakeCache) List() ([]metav1.Object, error) {
	c.s.lists++
	if c.s.listErr != nil {
		return nil, c.s.listErr
	}
	return append([]metav1.Object{}, c.s.content...), nil
}
func (c vFakeCache) Get(ns, name string) (metav1.Object, error) {
	for _, o := range c.s.content {
		if o.GetNamespace() == ns && o.GetName() == name {
			return o, nil
		}
	}
	return nil, nil
}
func (c vFakeCache) GetObject(o metav1.Object) (metav1.Object, error) {
	return c.Get(o.GetNamespace(), o.GetName())
}

// vFakePublisher hands out one prepared subscription.
type vFakePublisher struct {
	sub Subscription
	err error
}

func (p *vFakePublisher) Subscribe() (Subscription, error) { return p.sub, p.err }
func (p *vFakePublisher) SubscribeWithFilter(filter.Filter) (FilterSubscription, error) {
	panic("not used")
}
func (p *vFakePublisher) SubscribeForFilter() (FilterSubscription, error) { panic("not used") }
func (p *vFakePublisher) Clone() (Controller, error)                      { panic("not used") }
func (p *vFakePublisher) CloneWithFilter(filter.Filter) (FilterController, error) {
	panic("not used")
}
func (p *vFakePublisher) CloneForFilter() (FilterController, error) { panic("not used") }

func vClosed(ch <-chan struct{}) bool {
	select {
	case <-ch:
		return true
	default:
		return false
	}
}

var _ = zzverif.Yield
