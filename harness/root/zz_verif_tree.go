//go:build verif

package kcache

import (
	"context"

	"github.com/boz/kcache/filter"
	"github.com/boz/kcache/zzverif"
	metav1 "k8s.io/apimachinery/pkg/apis/meta/v1"
)

// Publisher trees (C05, C10, C11): real publisher / _subscription /
// filterSubscription / filterController / monitor below a fake root
// subscription whose cache is a real cache actor.

type vNode struct {
	kind   string // pub sub fsub fpub mon
	parent int    // index of the parent node (-1: root publisher)
	pub    Controller
	sub    Subscription
	mon    Monitor
	since  int  // number of events published when the node was attached
	exact  bool // the system was quiescent when it was attached
	got    []Event
	monch  chan Event // monitor callbacks
	closed bool
	refilt func(filter.Filter) error
}

type vTree struct {
	root   *vFakeSub
	pcache cache
	nodes  []*vNode
	pubd   []Event
}

func newTree(bufsz int) *vTree { return newTreeR(bufsz, true) }

func newTreeR(bufsz int, ready bool) *vTree {
	t := &vTree{root: newFakeSub(bufsz)}
	stop := make(chan struct{})
	t.pcache = newCache(context.Background(), vLog{}, stop, filter.Null())
	t.root.cacheOverride = t.pcache
	// like a controller's cache, the root's cache stops when the root goes away
	if zzverif.Param("ROOTCACHE", 0) == 1 {
		go func() {
			<-t.root.donech
			close(stop)
		}()
	}
	if ready {
		close(t.root.readych)
	}
	t.nodes = append(t.nodes, &vNode{kind: "pub", parent: -1, pub: newPublisher(vLog{}, t.root)})
	return t
}

func (t *vTree) publish() {
	p := vSymPod("ev")
	zzverif.Assume(zzverif.AtoiOK(p.ResourceVersion))
	for _, e := range t.pubd {
		zzverif.Assume(zzverif.Not(vSameKey(vEntOf(p), vEntOf(e.Resource()))))
	}
	ev := NewEvent(EventTypeCreate, p)
	out, err := t.pcache.update(ev)
	zzverif.Assert(err == nil, "harness/parent-update")
	zzverif.Assert(len(out) == 1, "harness/parent-update")
	t.pubd = append(t.pubd, ev)
	t.root.evch <- ev
}

// publishMixed publishes a create of a new object or a delete of the most
// recently created object that still exists.
func (t *vTree) publishMixed() {
	var last Event
	for _, e := range t.pubd {
		if e.Type() == EventTypeCreate {
			alive := true
			for _, d := range t.pubd {
				if d.Type() == EventTypeDelete && d.Resource() == e.Resource() {
					alive = false
				}
			}
			if alive {
				last = e
			}
		}
	}
	if last == nil || zzverif.NondetInt("ev.kind", 0, 1) == 0 {
		t.publish()
		return
	}
	ev := NewEvent(EventTypeDelete, last.Resource())
	out, err := t.pcache.update(ev)
	zzverif.Assert(err == nil && len(out) == 1, "harness/parent-update")
	t.pubd = append(t.pubd, ev)
	t.root.evch <- ev
}

// publishAny publishes a create of a new object, or an update (strictly newer
// version, same key) or a delete of the most recently created live object.
func (t *vTree) publishAny() {
	var last Event
	for _, e := range t.pubd {
		if e.Type() != EventTypeDelete {
			alive := true
			for _, d := range t.pubd {
				if d.Type() == EventTypeDelete && vSameKey(vEntOf(d.Resource()), vEntOf(e.Resource())) {
					alive = false
				}
			}
			if alive {
				last = e
			}
		}
	}
	kind := 0
	if last != nil {
		kind = zzverif.NondetInt("ev.kind", 0, 2)
	}
	switch kind {
	case 0:
		t.publish()
	case 1:
		old := last.Resource()
		p := vSymPod("evu")
		p.Namespace, p.Name = old.GetNamespace(), old.GetName()
		zzverif.Assume(zzverif.And(zzverif.AtoiOK(p.ResourceVersion), zzverif.AtoiVal(p.ResourceVersion) > zzverif.AtoiVal(old.GetResourceVersion())))
		ev := NewEvent(EventTypeUpdate, p)
		out, err := t.pcache.update(ev)
		zzverif.Assert(err == nil && len(out) == 1, "harness/parent-update")
		t.pubd = append(t.pubd, out[0])
		t.root.evch <- out[0]
		zzverif.Reach("C05/update-published")
	default:
		ev := NewEvent(EventTypeDelete, last.Resource())
		out, err := t.pcache.update(ev)
		zzverif.Assert(err == nil && len(out) == 1, "harness/parent-update")
		t.pubd = append(t.pubd, ev)
		t.root.evch <- ev
	}
}

type vMonHandler struct{ ch chan Event }

func (h vMonHandler) OnInitialize(objs []metav1.Object) {}
func (h vMonHandler) OnCreate(o metav1.Object)          { h.ch <- NewEvent(EventTypeCreate, o) }
func (h vMonHandler) OnUpdate(o metav1.Object)          { h.ch <- NewEvent(EventTypeUpdate, o) }
func (h vMonHandler) OnDelete(o metav1.Object)          { h.ch <- NewEvent(EventTypeDelete, o) }

// attach adds a node of the given kind below publisher node pi.
func (t *vTree) attach(pi int, kind string, exact bool) int {
	pn := t.nodes[pi]
	n := &vNode{kind: kind, parent: pi, since: len(t.pubd), exact: exact}
	var err error
	switch kind {
	case "sub":
		n.sub, err = pn.pub.Subscribe()
	case "fsub":
		var fs FilterSubscription
		fs, err = pn.pub.SubscribeWithFilter(filter.Null())
		n.sub = fs
		if err == nil {
			n.refilt = fs.Refilter
		}
	case "pub":
		n.pub, err = pn.pub.Clone()
	case "fpub":
		var fc FilterController
		fc, err = pn.pub.CloneWithFilter(filter.Null())
		n.pub = fc
		if err == nil {
			n.refilt = fc.Refilter
		}
	case "mon":
		n.monch = make(chan Event, 16)
		n.mon, err = NewMonitor(pn.pub, vMonHandler{n.monch})
	}
	zzverif.Assert(err == nil, "harness/attach")
	t.nodes = append(t.nodes, n)
	return len(t.nodes) - 1
}

func (n *vNode) drain() {
	var ch <-chan Event
	switch {
	case n.sub != nil:
		ch = n.sub.Events()
	case n.monch != nil:
		ch = n.monch
	default:
		return
	}
	for {
		select {
		case ev, ok := <-ch:
			if ok {
				n.got = append(n.got, ev)
				continue
			}
		default:
		}
		return
	}
}

// checkSuffix: what a consumer received is a contiguous suffix of the published
// sequence that starts no later than the events published after it was attached.
func (t *vTree) checkSuffix(n *vNode, prop string) {
	m := len(t.pubd)
	k := len(n.got)
	zzverif.Assert(k <= m, prop+"/exact-suffix/no-duplicate")
	zzverif.Assert(k >= m-n.since, prop+"/exact-suffix/complete")
	if n.exact {
		zzverif.Assert(k == m-n.since, prop+"/exact-suffix/not-before-subscription")
	}
	if k > m {
		return
	}
	for i := 0; i < k; i++ {
		zzverif.Assert(n.got[i].Resource() == t.pubd[m-k+i].Resource(), prop+"/exact-suffix/in-order")
		zzverif.Assert(n.got[i].Type() == t.pubd[m-k+i].Type(), prop+"/exact-suffix/in-order")
	}
}

// VerifC05_Tree: subscribers and clones attached at arbitrary points of a stream.
func VerifC05_Tree() {
	K := zzverif.Param("K", 4)
	depth := zzverif.Param("DEPTH", 2)
	t := newTree(2 * K)
	pubs := []int{0}
	for i := 0; i < K; i++ {
		switch zzverif.NondetInt("action", 0, 3) {
		case 3:
			// a subscriber goes away mid-stream: its siblings must not notice
			var live []int
			for j, n := range t.nodes {
				if n.kind == "sub" && !n.closed {
					live = append(live, j)
				}
			}
			if len(live) == 0 {
				zzverif.Assume(false)
			}
			v := t.nodes[live[zzverif.NondetInt("close", 0, len(live)-1)]]
			v.closed = true
			v.sub.Close()
			zzverif.Reach("C05/sibling-closed")
		case 0:
			t.publishAny()
		case 1:
			exact := false
			if zzverif.NondetInt("quiesce", 0, 1) == 1 {
				zzverif.Quiesce()
				exact = true
			}
			t.attach(pubs[zzverif.NondetInt("under", 0, len(pubs)-1)], "sub", exact)
		default:
			if len(pubs) >= depth {
				zzverif.Assume(false)
			}
			pubs = append(pubs, t.attach(pubs[len(pubs)-1], "pub", false))
		}
	}
	zzverif.Quiesce()
	nsub := 0
	for _, n := range t.nodes {
		if n.kind == "sub" && !n.closed {
			n.drain()
			t.checkSuffix(n, "C05")
			nsub++
			if len(n.got) > 0 && n.parent > 0 {
				zzverif.Reach("C05/received-through-clone")
			}
			if len(n.got) > 0 {
				zzverif.Reach("C05/received")
			}
		}
	}
	if nsub >= 2 {
		zzverif.Reach("C05/two-subscribers")
	}
}

// VerifC10_Slow: one consumer never reads; everything else keeps flowing.
func VerifC10_Slow() {
	B := zzverif.Param("B", 2) // scaled EventBufsiz (see registry scale_buf)
	m := zzverif.NondetInt("m", 0, zzverif.Param("M", 2*B+1))
	t := newTree(2*B + 2)
	variant := zzverif.NondetInt("variant", 0, 3)
	var stalled, healthy int
	switch variant {
	case 0: // two direct subscribers
		stalled = t.attach(0, "sub", true)
		healthy = t.attach(0, "sub", true)
	case 1: // stalled subscriber below a clone, healthy one at the root
		c := t.attach(0, "pub", true)
		stalled = t.attach(c, "sub", true)
		healthy = t.attach(0, "sub", true)
	case 2: // stalled subscriber of a filtered clone
		c := t.attach(0, "fpub", true)
		zzverif.Quiesce()
		stalled = t.attach(c, "sub", true)
		healthy = t.attach(0, "sub", true)
	default: // stalled filtered subscription, healthy monitor
		stalled = t.attach(0, "fsub", true)
		healthy = t.attach(0, "mon", true)
	}
	zzverif.Quiesce()
	hn := t.nodes[healthy]
	// the healthy consumer reads concurrently with the stream
	rd := make(chan []Event, 1)
	stopRead := make(chan struct{})
	acks := make(chan struct{}, 2*B+2)
	go func() {
		var got []Event
		var ch <-chan Event = hn.monch
		if hn.sub != nil {
			ch = hn.sub.Events()
		}
		for {
			select {
			case ev := <-ch:
				got = append(got, ev)
				acks <- struct{}{}
			case <-stopRead:
				rd <- got
				return
			}
		}
	}()
	// paced: the environment lets the library's own goroutines drain between two events, so
	// that no INTERNAL hand-over buffer overflows (only the stalled consumer's own buffer does)
	paced := zzverif.NondetInt("paced", 0, 1) == 1
	acked := 0
	for i := 0; i < m; i++ {
		// premise: the healthy consumer keeps its backlog below its buffer
		for i-acked > B-1 {
			<-acks
			acked++
		}
		t.publishMixed() // must never block: the root buffer is large enough, nothing downstream may push back
		if paced {
			zzverif.Quiesce()
		}
	}
	zzverif.Quiesce()
	close(stopRead)
	hn.got = <-rd
	zzverif.Assert(len(hn.got) == m, "C10/healthy-complete")
	t.checkSuffix(hn, "C10/healthy")
	// the caches stay current
	pl := vListEnts(t.pcache, "harness/parent-list")
	alive := 0
	for _, e := range t.pubd {
		if e.Type() == EventTypeCreate {
			alive++
		} else {
			alive--
		}
	}
	zzverif.Assert(len(pl) == alive, "C10/cache-current")
	// ... including the caches of filtered nodes, stalled or not (their filter accepts everything)
	for _, nd := range t.nodes {
		if nd.refilt == nil || !paced {
			continue // unpaced: a library goroutine may itself lag more than its input buffer holds
		}
		var own []vEnt
		if nd.sub != nil {
			own = vListEnts(nd.sub.Cache(), "harness/own-list")
		} else {
			own = vListEnts(nd.pub.Cache(), "harness/own-list")
		}
		zzverif.Assert(vSameContent(own, pl), "C10/cache-current/filtered-node")
	}
	// what the stalled consumer later finds is an in-order subsequence, at least its buffer's worth
	sn := t.nodes[stalled]
	// a Refilter on the stalled filtered subscription (its buffer may be full) must neither wedge
	// it nor stop its cache from following the parent
	if variant == 3 && paced && zzverif.NondetInt("refilter-stalled", 0, 1) == 1 {
		g := symFilter{1}
		zzverif.Assert(sn.refilt(g) == nil, "harness/refilter")
		zzverif.Quiesce()
		t.publish()
		zzverif.Quiesce()
		zzverif.Assert(sn.refilt(filter.Not(filter.All())) == nil, "C10/no-block/refilter-returns")
		zzverif.Quiesce()
		own := vListEnts(sn.sub.Cache(), "harness/own-list")
		zzverif.Assert(vSameContent(own, vListEnts(t.pcache, "harness/parent-list")), "C10/cache-current/after-refilter")
		zzverif.Reach("C10/refilter-stalled")
		return
	}
	sn.drain()
	want := m
	if want > B {
		want = B
	}
	zzverif.Assert(len(sn.got) >= want, "C10/stalled-keeps-buffer")
	subseq := func() {
		j := 0
		for _, ev := range sn.got {
			for j < len(t.pubd) && t.pubd[j].Resource() != ev.Resource() {
				j++
			}
			zzverif.Assert(j < len(t.pubd), "C10/stalled-subsequence")
			j++
		}
	}
	subseq()
	if m > B {
		zzverif.Reach("C10/overflow")
	}
	// the stalled consumer has caught up and the stream goes on: what it reads overall is
	// still an in-order subsequence (nothing that was dropped comes back later)
	if paced && zzverif.NondetInt("resume", 0, 1) == 1 {
		for i := 0; i < 2; i++ {
			t.publishMixed()
			zzverif.Quiesce()
		}
		n0 := len(sn.got)
		sn.drain()
		zzverif.Assert(len(sn.got) >= n0+2 || variant >= 2, "C10/resumed-complete")
		subseq()
		zzverif.Reach("C10/resumed")
	}
	zzverif.Reach("C10/done")
}

func (t *vTree) isBelow(i, anc int) bool {
	for i >= 0 {
		if i == anc {
			return true
		}
		i = t.nodes[i].parent
	}
	return false
}

func (n *vNode) doneCh() <-chan struct{} {
	switch {
	case n.pub != nil:
		return n.pub.Done()
	case n.sub != nil:
		return n.sub.Done()
	default:
		return n.mon.Done()
	}
}

func (n *vNode) close() {
	switch {
	case n.pub != nil:
		n.pub.Close()
	case n.sub != nil:
		n.sub.Close()
	default:
		n.mon.Close()
	}
}

// VerifC11_Close: closing one node closes exactly its subtree.
func VerifC11_Close() {
	ready := zzverif.NondetInt("rootready", 0, 1) == 1
	if zzverif.Param("FIXREADY", 0) == 1 && !ready {
		zzverif.Assume(false)
	}
	t := newTreeR(8, ready)
	// shape: solver-chosen from a small grammar (<= 5 nodes below the root publisher)
	kinds := []string{"sub", "fsub", "pub", "fpub", "mon"}
	n := zzverif.NondetInt("nodes", 1, zzverif.Param("NODES", 3))
	for i := 0; i < n; i++ {
		var pubs []int
		for j, nd := range t.nodes {
			if nd.pub != nil {
				pubs = append(pubs, j)
			}
		}
		under := pubs[zzverif.NondetInt("under", 0, len(pubs)-1)]
		if zzverif.Param("CHAIN", 0) == 1 && i > 0 && under != len(t.nodes)-1 {
			zzverif.Assume(false) // chain shapes only: each node below the previous one
		}
		if zzverif.Param("SIBLINGS", 0) == 1 && under != 0 {
			zzverif.Assume(false) // sibling shapes only: every node directly below the root publisher
		}
		if zzverif.Param("SIBLINGS", 0) == 1 && i == 0 {
			t.attach(under, "sub", false) // the first sibling is a plain subscriber (the witness for "sideways")
			continue
		}
		depth := 0
		for x := under; x > 0; x = t.nodes[x].parent {
			depth++
		}
		if depth >= zzverif.Param("DEPTH", 2) {
			zzverif.Assume(false)
		}
		t.attach(under, kinds[zzverif.NondetInt("kind", 0, 4)], false)
	}
	when := zzverif.NondetInt("when", 0, 2)
	if when == 1 && zzverif.Param("MIDSTREAM", 1) == 0 {
		zzverif.Assume(false)
	}
	if !ready && when != 0 {
		zzverif.Assume(false) // nothing is published before the root is ready
	}
	// closing during a refilter: filtered nodes get a new filter just before
	if zzverif.NondetInt("refilter", 0, 1-zzverif.Param("NOREFILTER", 0)) == 1 {
		for _, nd := range t.nodes {
			if nd.refilt != nil {
				zzverif.Assert(nd.refilt(filter.Not(filter.All())) == nil, "harness/refilter") // a different filter that still accepts everything
				zzverif.Reach("C11/refilter-before-close")
			}
		}
	}
	if when >= 1 {
		t.publish()
	}
	if when == 2 {
		zzverif.Quiesce()
	}
	victim := zzverif.NondetInt("victim", 0, len(t.nodes)-1)
	rootClosed := false
	if victim == 0 && zzverif.NondetInt("how", 0, 1) == 1 {
		t.root.Close() // the root's own parent goes away
		rootClosed = true
	} else {
		t.nodes[victim].close()
	}
	zzverif.Quiesce()
	for i, nd := range t.nodes {
		if t.isBelow(i, victim) {
			zzverif.Assert(vClosed(nd.doneCh()), "C11/subtree-done")
			if nd.sub != nil {
				nd.drain()
				_, ok := <-nd.sub.Events()
				zzverif.Assert(!ok, "C11/subtree-done/events-closed")
			}
		} else {
			zzverif.Assert(!vClosed(nd.doneCh()), "C11/others-alive")
		}
	}
	if victim != 0 {
		zzverif.Assert(!vClosed(t.root.Done()), "C11/others-alive/root")
		// the survivors are fully functional: they receive a subsequent event
		if !ready {
			close(t.root.readych)
			zzverif.Quiesce()
		}
		for _, nd := range t.nodes {
			nd.drain()
			nd.got = nil
		}
		t.publish()
		zzverif.Quiesce()
		for i, nd := range t.nodes {
			if !t.isBelow(i, victim) && (nd.sub != nil || nd.monch != nil) {
				nd.drain()
				zzverif.Assert(len(nd.got) == 1, "C11/others-functional")
				zzverif.Reach("C11/survivor-received")
			}
		}
		zzverif.Reach("C11/inner-closed")
	} else {
		zzverif.Assert(vClosed(t.root.Done()), "C11/root-closes-all")
		zzverif.Reach("C11/root-closed")
	}
	_ = rootClosed
	zzverif.Assert(zzverif.LiveLibGoroutines() <= 3+0*len(t.nodes) || victim != 0, "C11/root-closes-all/goroutines-exit")
}
