//go:build verif

package ingress

import "github.com/boz/kcache"

// VNewController wraps an (untyped) controller in this package's typed controller (verification only).
func VNewController(parent kcache.Controller) Controller { return newController(parent) }

// VNewFilterController wraps an untyped filter controller (verification only).
func VNewFilterController(parent kcache.FilterController) FilterController {
	return newFilterController(parent)
}
