//go:build verif

// Package zzverif is the harness API. Under the symbolic engine (gosym) every
// function here is intercepted by name; the bodies below are the native
// implementation used to replay a counterexample against the compiled code.
package zzverif

import (
	"encoding/json"
	"fmt"
	"math/rand"
	"os"
	"runtime"
	"strconv"
	"strings"
	"sync"
	"time"
)

type replayFile struct {
	Label  string            `json:"label"`
	Values map[string]string `json:"values"` // "tag#k" -> value (bools: true/false, ints: decimal, strings: raw)
	UF     map[string]bool   `json:"uf"`     // "name|arg1|arg2" -> result
	Params map[string]int    `json:"params"`
}

var (
	mu       sync.Mutex
	loaded   bool
	rf       replayFile
	counters = map[string]int{}
	// Failed collects assertion failures during a native replay.
	Failed  []string
	Reached []string
)

func load() {
	if loaded {
		return
	}
	loaded = true
	rf.Values = map[string]string{}
	rf.UF = map[string]bool{}
	rf.Params = map[string]int{}
	p := os.Getenv("VERIF_REPLAY")
	if p == "" {
		return
	}
	b, err := os.ReadFile(p)
	if err != nil {
		panic(err)
	}
	if err := json.Unmarshal(b, &rf); err != nil {
		panic(err)
	}
}

func next(tag string) (string, bool) {
	mu.Lock()
	defer mu.Unlock()
	load()
	k := counters[tag]
	counters[tag] = k + 1
	v, ok := rf.Values[fmt.Sprintf("%s#%d", tag, k)]
	return v, ok
}

func NondetBool(tag string) bool {
	v, _ := next(tag)
	return v == "true"
}

// NondetInt returns a concrete value in [lo,hi] (the engine forks over the range).
func NondetInt(tag string, lo, hi int) int {
	v, ok := next(tag)
	if !ok {
		return lo
	}
	n, _ := strconv.Atoi(v)
	return n
}

// NondetInt64 returns an unconstrained symbolic int.
func NondetInt64(tag string) int {
	v, _ := next(tag)
	n, _ := strconv.Atoi(v)
	return n
}

func NondetString(tag string) string {
	v, _ := next(tag)
	return v
}

type assumeFailed struct{}

func Assume(b bool) {
	if !b {
		panic(assumeFailed{})
	}
}

func Assert(b bool, label string) {
	if !b {
		mu.Lock()
		Failed = append(Failed, label)
		mu.Unlock()
	}
}

func Reach(label string) {
	mu.Lock()
	Reached = append(Reached, label)
	mu.Unlock()
}

func UFBool(name string, args ...interface{}) bool {
	mu.Lock()
	defer mu.Unlock()
	load()
	parts := []string{name}
	for _, a := range args {
		parts = append(parts, fmt.Sprint(a))
	}
	return rf.UF[strings.Join(parts, "|")]
}

func And(bs ...bool) bool {
	for _, b := range bs {
		if !b {
			return false
		}
	}
	return true
}

func Or(bs ...bool) bool {
	for _, b := range bs {
		if b {
			return true
		}
	}
	return false
}

func Not(b bool) bool        { return !b }
func Implies(a, b bool) bool { return !a || b }
func Iff(a, b bool) bool     { return a == b }

func Param(name string, def int) int {
	mu.Lock()
	defer mu.Unlock()
	load()
	if v, ok := rf.Params[name]; ok {
		return v
	}
	return def
}

func Note(what string, args ...interface{}) {}

func AtoiOK(s string) bool { _, err := strconv.Atoi(s); return err == nil }
func AtoiVal(s string) int { n, _ := strconv.Atoi(s); return n }

// Quiesce blocks until no other goroutine can make progress. The engine decides
// that exactly; natively it is approximated by waiting.
func Quiesce() { time.Sleep(30 * time.Millisecond) }

// Yield is a scheduling point; natively a random short delay.
func Yield() { Perturb() }

// Perturb is a no-op under the engine; natively it randomly delays the calling
// goroutine so that repeated native replays sample different interleavings.
func Perturb() {
	switch rand.Intn(4) {
	case 0:
		runtime.Gosched()
	case 1:
		time.Sleep(time.Duration(rand.Intn(300)) * time.Microsecond)
	}
}

func LiveLibGoroutines() int { return 0 }
func AllowTimerFires(n int)  {}
func TimerFires() int        { return 0 }
func IsSymbolic() bool       { return false }

// RunReplay runs f, swallowing a failed Assume, and reports the failed assertion labels.
func RunReplay(f func()) (failed []string, panicked interface{}) {
	defer func() {
		if r := recover(); r != nil {
			if _, ok := r.(assumeFailed); ok {
				failed = append([]string{}, Failed...)
				return
			}
			panicked = r
			failed = append([]string{}, Failed...)
		}
	}()
	f()
	return append([]string{}, Failed...), nil
}

// Now is the engine's logical clock (advanced by timer fires only).
func Now() int { return 0 }
