//go:build verif

package filters

import (
	"github.com/boz/kcache/filter"
	"github.com/boz/kcache/nsname"
	"github.com/boz/kcache/types/event"
	"github.com/boz/kcache/types/ingress"
	"github.com/boz/kcache/types/pod"
	"github.com/boz/kcache/types/replicationcontroller"
	"github.com/boz/kcache/types/service"
	"github.com/boz/kcache/zzverif"
	corev1 "k8s.io/api/core/v1"
	netv1beta1 "k8s.io/api/networking/v1beta1"
	metav1 "k8s.io/apimachinery/pkg/apis/meta/v1"
	"k8s.io/apimachinery/pkg/labels"
)

// genTerm builds a filter term whose structure is chosen by the solver.
func genTerm(tag string, depth int) filter.Filter {
	max := 8
	if depth <= 1 {
		max = 5
	}
	switch zzverif.NondetInt(tag+".kind", 0, max) {
	case 0:
		return filter.Null()
	case 1:
		return filter.All()
	case 2:
		return filter.VSymFilter{ID: zzverif.NondetInt(tag+".leaf", 0, 1)}
	case 3:
		return filter.NSName(nsname.New(zzverif.NondetString(tag+".ns"), zzverif.NondetString(tag+".name")))
	case 4:
		return filter.Labels(map[string]string{zzverif.NondetString(tag + ".k"): zzverif.NondetString(tag + ".v")})
	case 5:
		return filter.FN(func(o metav1.Object) bool { return zzverif.UFBool("fn", o.GetNamespace(), o.GetName()) })
	case 6:
		return filter.Not(genTerm(tag, depth-1))
	default:
		isAnd := zzverif.NondetInt(tag+".and", 0, 1) == 1
		n := zzverif.NondetInt(tag+".arity", 0, zzverif.Param("ARITY", 2))
		var fs []filter.Filter
		for i := 0; i < n; i++ {
			fs = append(fs, genTerm(tag, depth-1))
		}
		if isAnd {
			return filter.And(fs...)
		}
		return filter.Or(fs...)
	}
}

func checkSound(a, b filter.Filter, o metav1.Object, label string) {
	eq := filter.FiltersEqual(a, b)
	if eq {
		zzverif.Reach("C17/equal/" + label)
		zzverif.Assert(zzverif.Iff(a.Accept(o), b.Accept(o)), "C17/sound/"+label)
	} else {
		zzverif.Reach("C17/unequal/" + label)
	}
	if ca, ok := a.(filter.ComparableFilter); ok {
		if ca.Equals(b) {
			zzverif.Assert(zzverif.Iff(a.Accept(o), b.Accept(o)), "C17/sound-equals/"+label)
		}
	}
}

// VerifC17_Terms: two independently generated terms; equality implies agreement on every object.
func VerifC17_Terms() {
	d := zzverif.Param("DEPTH", 2)
	a := genTerm("a", d)
	b := genTerm("b", d)
	o := filter.VSymPod("o", 1)
	checkSound(a, b, o, "terms")
}

// VerifC17_Nil: nil and non-comparable cases of FiltersEqual.
func VerifC17_Nil() {
	zzverif.Assert(filter.FiltersEqual(nil, nil), "C17/nil-cases/both-nil")
	f := genTerm("a", 1)
	zzverif.Assert(!filter.FiltersEqual(nil, f), "C17/nil-cases/left-nil")
	zzverif.Assert(!filter.FiltersEqual(f, nil), "C17/nil-cases/right-nil")
	fn := filter.FN(func(o metav1.Object) bool { return true })
	zzverif.Assert(!filter.FiltersEqual(fn, fn), "C17/nil-cases/fn-not-comparable")
	zzverif.Reach("C17/nil")
}

func symIDs(tag string, max int) []nsname.NSName {
	n := zzverif.NondetInt(tag+".n", 0, max)
	var ids []nsname.NSName
	for i := 0; i < n; i++ {
		ids = append(ids, nsname.New(zzverif.NondetString(tag+".ns"), zzverif.NondetString(tag+".name")))
	}
	return ids
}

// VerifC17_NSName: NSName filters with independent arguments.
func VerifC17_NSName() {
	m := zzverif.Param("IDS", 2)
	a := filter.NSName(symIDs("a", m)...)
	b := filter.NSName(symIDs("b", m)...)
	checkSound(a, b, filter.VSymPod("o", 0), "nsname")
}

// VerifC17_Labels: Labels / LabelSelector / Selector filters with independent arguments.
func VerifC17_Labels() {
	var a, b filter.Filter
	mk := func(tag string) filter.Filter {
		switch zzverif.NondetInt(tag+".ctor", 0, 2) {
		case 0:
			return filter.Labels(filter.VSymLabels(tag+".m", zzverif.Param("PAIRS", 2)))
		case 1:
			return filter.LabelSelector(filter.VSymLabelSelector(tag + ".ls"))
		default:
			if zzverif.NondetInt(tag+".every", 0, 1) == 1 {
				return filter.Selector(labels.Everything())
			}
			return filter.Selector(labels.Nothing())
		}
	}
	a, b = mk("a"), mk("b")
	checkSound(a, b, filter.VSymPod("o", zzverif.Param("OLABELS", 2)), "labels")
}

// VerifC17_Typed: node / involved-object / selector-match filters.
func VerifC17_Typed() {
	mk := func(tag string) filter.Filter {
		switch zzverif.NondetInt(tag+".ctor", 0, 2) {
		case 0:
			n := zzverif.NondetInt(tag+".nodes", 0, 2)
			var names []string
			for i := 0; i < n; i++ {
				names = append(names, zzverif.NondetString(tag+".node"))
			}
			return pod.NodeFilter(names...)
		case 1:
			return event.InvolvedFilter(zzverif.NondetString(tag+".kind"), zzverif.NondetString(tag+".ns"), zzverif.NondetString(tag+".name"))
		default:
			return service.SelectorMatchFilter(filter.VSymLabels(tag+".target", 2))
		}
	}
	a, b := mk("a"), mk("b")
	o, _ := symCandidate("o")
	checkSound(a, b, o, "typed")
}

func wlDistinct(ws []wl) {
	for i := range ws {
		for j := 0; j < i; j++ {
			zzverif.Assume(zzverif.Not(zzverif.And(ws[i].ns == ws[j].ns, ws[i].name == ws[j].name)))
		}
	}
}

func buildMapFilter(svc bool, ws []wl) filter.ComparableFilter {
	if svc {
		var xs []*corev1.Service
		for _, w := range ws {
			xs = append(xs, &corev1.Service{ObjectMeta: metav1.ObjectMeta{Namespace: w.ns, Name: w.name}, Spec: corev1.ServiceSpec{Selector: w.selMap}})
		}
		return service.PodsFilter(xs...)
	}
	var xs []*corev1.ReplicationController
	for _, w := range ws {
		tm := &corev1.PodTemplateSpec{ObjectMeta: metav1.ObjectMeta{Labels: w.tmpl}}
		xs = append(xs, &corev1.ReplicationController{ObjectMeta: metav1.ObjectMeta{Namespace: w.ns, Name: w.name},
			Spec: corev1.ReplicationControllerSpec{Selector: w.selMap, Template: tm}})
	}
	return replicationcontroller.PodsFilter(xs...)
}

func reversed(ws []wl) []wl {
	var out []wl
	for i := len(ws) - 1; i >= 0; i-- {
		out = append(out, ws[i])
	}
	return out
}

// vC17Workload: two independently chosen workload sets of one kind: equality is
// sound; the same set built twice, or given in another order, compares equal.
func vC17Workload(kind int, label string) {
	var build func(ws []wl) filter.ComparableFilter
	mapSel := kind >= 100
	switch kind {
	case 100:
		build = func(ws []wl) filter.ComparableFilter { return buildMapFilter(true, ws) }
	case 101:
		build = func(ws []wl) filter.ComparableFilter { return buildMapFilter(false, ws) }
	default:
		build = func(ws []wl) filter.ComparableFilter { return buildSelectorFilter(kind, ws) }
	}
	p := filter.VSymPod("pod", zzverif.Param("OLABELS", 1))
	if zzverif.NondetInt("mode", 0, 1) == 0 {
		wa := symWorkloadsN(mapSel, zzverif.Param("WPAIR", 1))
		wb := symWorkloadsN(mapSel, zzverif.Param("WPAIR", 1))
		checkSound(build(wa), build(wb), p, label)
		return
	}
	wa := symWorkloads(mapSel)
	a := build(wa)
	// same arguments: twice, and in reverse order (distinct namespace/name)
	zzverif.Assert(a.Equals(build(wa)), "C17/reflexive-construction/"+label)
	wlDistinct(wa)
	zzverif.Assert(a.Equals(build(reversed(wa))), "C17/order-insensitive/"+label)
	zzverif.Assert(build(reversed(wa)).Equals(a), "C17/order-insensitive/"+label)
	zzverif.Reach("C17/same-args/" + label)
}

func VerifC17_ReplicaSet()  { vC17Workload(kReplicaSet, "replicaset") }
func VerifC17_Deployment()  { vC17Workload(kDeployment, "deployment") }
func VerifC17_DaemonSet()   { vC17Workload(kDaemonSet, "daemonset") }
func VerifC17_StatefulSet() { vC17Workload(kStatefulSet, "statefulset") }
func VerifC17_Job()         { vC17Workload(kJob, "job") }
func VerifC17_Service()     { vC17Workload(100, "service") }
func VerifC17_RC()          { vC17Workload(101, "rc") }

func symIngresses(tag string, max int) []*netv1beta1.Ingress {
	n := zzverif.NondetInt(tag+".n", 0, max)
	var ings []*netv1beta1.Ingress
	for i := 0; i < n; i++ {
		ing := &netv1beta1.Ingress{ObjectMeta: metav1.ObjectMeta{Namespace: zzverif.NondetString(tag + ".ns"), Name: zzverif.NondetString(tag + ".name")}}
		if zzverif.NondetInt(tag+".backend", 0, 1) == 1 {
			ing.Spec.Backend = &netv1beta1.IngressBackend{ServiceName: zzverif.NondetString(tag + ".be")}
		}
		if zzverif.NondetInt(tag+".rule", 0, 1) == 1 {
			ing.Spec.Rules = append(ing.Spec.Rules, netv1beta1.IngressRule{IngressRuleValue: netv1beta1.IngressRuleValue{HTTP: &netv1beta1.HTTPIngressRuleValue{
				Paths: []netv1beta1.HTTPIngressPath{{Backend: netv1beta1.IngressBackend{ServiceName: zzverif.NondetString(tag + ".pbe")}}}}}})
		}
		ings = append(ings, ing)
	}
	return ings
}

// VerifC17_Ingress: ingress services filters.
func VerifC17_Ingress() {
	svc := &corev1.Service{ObjectMeta: metav1.ObjectMeta{Namespace: zzverif.NondetString("svc.ns"), Name: zzverif.NondetString("svc.name")}}
	if zzverif.NondetInt("mode", 0, 1) == 0 {
		a := ingress.ServicesFilter(symIngresses("a", zzverif.Param("INGPAIR", 1))...)
		b := ingress.ServicesFilter(symIngresses("b", zzverif.Param("INGPAIR", 1))...)
		checkSound(a, b, svc, "ingress")
		return
	}
	ia := symIngresses("a", zzverif.Param("ING", 2))
	a := ingress.ServicesFilter(ia...)
	zzverif.Assert(a.Equals(ingress.ServicesFilter(ia...)), "C17/reflexive-construction/ingress")
	zzverif.Reach("C17/same-args/ingress")
}

// VerifC17_Reflexive: comparable terms built twice from the same arguments compare equal.
func VerifC17_Reflexive() {
	ids := symIDs("ids", 2)
	zzverif.Assert(filter.NSName(ids...).Equals(filter.NSName(ids...)), "C17/reflexive-construction/nsname")
	m := filter.VSymLabels("m", 2)
	zzverif.Assert(filter.Labels(m).Equals(filter.Labels(m)), "C17/reflexive-construction/labels")
	ls := filter.VSymLabelSelector("ls")
	zzverif.Assert(filter.LabelSelector(ls).Equals(filter.LabelSelector(ls)), "C17/reflexive-construction/labelselector")
	nm := zzverif.NondetString("node")
	zzverif.Assert(pod.NodeFilter(nm).Equals(pod.NodeFilter(nm)), "C17/reflexive-construction/node")
	k, ns, n := zzverif.NondetString("kind"), zzverif.NondetString("ns"), zzverif.NondetString("name")
	zzverif.Assert(event.InvolvedFilter(k, ns, n).Equals(event.InvolvedFilter(k, ns, n)), "C17/reflexive-construction/involved")
	zzverif.Assert(service.SelectorMatchFilter(m).Equals(service.SelectorMatchFilter(m)), "C17/reflexive-construction/selector-match")
	x, y := filter.VSymFilter{ID: 0}, filter.VSymFilter{ID: 1}
	zzverif.Assert(filter.And(x, filter.Not(y)).Equals(filter.And(x, filter.Not(y))), "C17/reflexive-construction/composite")
	zzverif.Assert(filter.Or(x, filter.Null(), filter.All()).Equals(filter.Or(x, filter.Null(), filter.All())), "C17/reflexive-construction/composite")
	zzverif.Reach("C17/reflexive")
}

// VerifC17_Nested: composites that differ only by nesting (an Or inside an And,
// an And inside an Or, nested vs flattened, inner kind swapped) over arbitrary
// leaves: whenever they compare equal they must agree on every object.
func VerifC17_Nested() {
	mk := func(and bool, fs []filter.Filter) filter.Filter {
		if and {
			return filter.And(fs...)
		}
		return filter.Or(fs...)
	}
	outerAnd := zzverif.NondetInt("outer", 0, 1) == 1
	innerAnd := zzverif.NondetInt("inner", 0, 1) == 1
	nin := zzverif.NondetInt("inner.n", 0, 2)
	nout := zzverif.NondetInt("outer.n", 0, 1)
	var xs, ys []filter.Filter
	for i := 0; i < nin; i++ {
		xs = append(xs, filter.VSymFilter{ID: i})
	}
	for i := 0; i < nout; i++ {
		ys = append(ys, filter.VSymFilter{ID: 2 + i})
	}
	a := mk(outerAnd, append([]filter.Filter{mk(innerAnd, xs)}, ys...))
	var b filter.Filter
	switch zzverif.NondetInt("other", 0, 2) {
	case 0: // flattened
		b = mk(outerAnd, append(append([]filter.Filter{}, xs...), ys...))
	case 1: // inner kind swapped
		b = mk(outerAnd, append([]filter.Filter{mk(!innerAnd, xs)}, ys...))
	default: // nested the other way round
		b = mk(innerAnd, append([]filter.Filter{mk(outerAnd, xs)}, ys...))
	}
	o := filter.VSymPod("o", 0)
	checkSound(a, b, o, "nested")
	checkSound(b, a, o, "nested")
	checkSound(filter.Not(a), filter.Not(b), o, "nested")
}
