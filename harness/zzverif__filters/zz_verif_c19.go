//go:build verif

// Package filters holds the harnesses for the typed workload filters (C19) and
// for filter equality across all constructors (C17).
package filters

import (
	"github.com/boz/kcache/filter"
	"github.com/boz/kcache/types/daemonset"
	"github.com/boz/kcache/types/deployment"
	"github.com/boz/kcache/types/event"
	"github.com/boz/kcache/types/ingress"
	"github.com/boz/kcache/types/job"
	"github.com/boz/kcache/types/pod"
	"github.com/boz/kcache/types/replicaset"
	"github.com/boz/kcache/types/replicationcontroller"
	"github.com/boz/kcache/types/service"
	"github.com/boz/kcache/types/statefulset"
	"github.com/boz/kcache/zzverif"
	appsv1 "k8s.io/api/apps/v1"
	batchv1 "k8s.io/api/batch/v1"
	corev1 "k8s.io/api/core/v1"
	netv1beta1 "k8s.io/api/networking/v1beta1"
	metav1 "k8s.io/apimachinery/pkg/apis/meta/v1"
)

// wl is an abstract workload: what the ownership rule of C19 looks at.
type wl struct {
	ns, name string
	sel      *metav1.LabelSelector // label-selector kinds
	selMap   map[string]string     // service / replication controller
	tmpl     map[string]string     // template labels
}

func subset(match, lbl map[string]string) bool {
	r := true
	for k, v := range match {
		ov, has := lbl[k]
		r = zzverif.And(r, has, ov == v)
	}
	return r
}

func symWorkloads(mapSelector bool) []wl {
	return symWorkloadsN(mapSelector, zzverif.Param("W", 2))
}

func symWorkloadsN(mapSelector bool, max int) []wl {
	n := zzverif.NondetInt("wl.n", 0, max)
	var ws []wl
	for i := 0; i < n; i++ {
		w := wl{ns: zzverif.NondetString("wl.ns"), name: zzverif.NondetString("wl.name")}
		// namespaced API objects always carry a namespace
		zzverif.Assume(w.ns != "")
		if mapSelector {
			w.selMap = filter.VSymLabels("wl.selmap", zzverif.Param("PAIRS", 2))
		} else {
			w.sel = filter.VSymLabelSelector("wl.sel")
		}
		w.tmpl = filter.VSymLabels("wl.tmpl", zzverif.Param("TMPL", 1))
		ws = append(ws, w)
	}
	return ws
}

const (
	kReplicaSet = iota
	kDeployment
	kDaemonSet
	kStatefulSet
	kJob
)

func buildSelectorFilter(kind int, ws []wl) filter.ComparableFilter {
	om := func(w wl) metav1.ObjectMeta { return metav1.ObjectMeta{Namespace: w.ns, Name: w.name} }
	tm := func(w wl) corev1.PodTemplateSpec {
		return corev1.PodTemplateSpec{ObjectMeta: metav1.ObjectMeta{Labels: w.tmpl}}
	}
	switch kind {
	case kReplicaSet:
		var xs []*appsv1.ReplicaSet
		for _, w := range ws {
			xs = append(xs, &appsv1.ReplicaSet{ObjectMeta: om(w), Spec: appsv1.ReplicaSetSpec{Selector: w.sel, Template: tm(w)}})
		}
		return replicaset.PodsFilter(xs...)
	case kDeployment:
		var xs []*appsv1.Deployment
		for _, w := range ws {
			xs = append(xs, &appsv1.Deployment{ObjectMeta: om(w), Spec: appsv1.DeploymentSpec{Selector: w.sel, Template: tm(w)}})
		}
		return deployment.PodsFilter(xs...)
	case kDaemonSet:
		var xs []*appsv1.DaemonSet
		for _, w := range ws {
			xs = append(xs, &appsv1.DaemonSet{ObjectMeta: om(w), Spec: appsv1.DaemonSetSpec{Selector: w.sel, Template: tm(w)}})
		}
		return daemonset.PodsFilter(xs...)
	case kStatefulSet:
		var xs []*appsv1.StatefulSet
		for _, w := range ws {
			xs = append(xs, &appsv1.StatefulSet{ObjectMeta: om(w), Spec: appsv1.StatefulSetSpec{Selector: w.sel, Template: tm(w)}})
		}
		return statefulset.PodsFilter(xs...)
	default:
		var xs []*batchv1.Job
		for _, w := range ws {
			xs = append(xs, &batchv1.Job{ObjectMeta: om(w), Spec: batchv1.JobSpec{Selector: w.sel, Template: tm(w)}})
		}
		return job.PodsFilter(xs...)
	}
}

// refOwnsSelector: some workload in the pod's namespace has a selector (or,
// lacking one, template labels) matching the pod's labels.
func refOwnsSelector(ws []wl, p *corev1.Pod) bool {
	want := false
	for _, w := range ws {
		var m bool
		if w.sel != nil {
			m = filter.VRefLabelSelector(w.sel, p.Labels)
		} else {
			m = subset(w.tmpl, p.Labels)
		}
		want = zzverif.Or(want, zzverif.And(w.ns == p.Namespace, m))
	}
	return want
}

func vC19Selector(kind int, label string) {
	ws := symWorkloads(false)
	f := buildSelectorFilter(kind, ws)
	p := filter.VSymPod("pod", zzverif.Param("OLABELS", 2))
	got := f.Accept(p)
	zzverif.Assert(zzverif.Iff(got, refOwnsSelector(ws, p)), "C19/"+label)
	if got {
		zzverif.Reach("C19/" + label + "/accept")
	} else {
		zzverif.Reach("C19/" + label + "/reject")
	}
}

func VerifC19_ReplicaSet()  { vC19Selector(kReplicaSet, "replicaset") }
func VerifC19_Deployment()  { vC19Selector(kDeployment, "deployment") }
func VerifC19_DaemonSet()   { vC19Selector(kDaemonSet, "daemonset") }
func VerifC19_StatefulSet() { vC19Selector(kStatefulSet, "statefulset") }
func VerifC19_Job()         { vC19Selector(kJob, "job") }

// VerifC19_Service: a service selects the pods of its namespace matching its
// selector; a service without selector selects nothing.
func VerifC19_Service() {
	ws := symWorkloads(true)
	var xs []*corev1.Service
	for _, w := range ws {
		xs = append(xs, &corev1.Service{ObjectMeta: metav1.ObjectMeta{Namespace: w.ns, Name: w.name}, Spec: corev1.ServiceSpec{Selector: w.selMap}})
	}
	f := service.PodsFilter(xs...)
	p := filter.VSymPod("pod", zzverif.Param("OLABELS", 2))
	got := f.Accept(p)
	want := false
	for _, w := range ws {
		if len(w.selMap) > 0 {
			want = zzverif.Or(want, zzverif.And(w.ns == p.Namespace, subset(w.selMap, p.Labels)))
		}
	}
	zzverif.Assert(zzverif.Iff(got, want), "C19/service")
	if got {
		zzverif.Reach("C19/service/accept")
	} else {
		zzverif.Reach("C19/service/reject")
	}
}

// VerifC19_RC: replication controllers: selector map, or template labels when there is none.
func VerifC19_RC() {
	ws := symWorkloads(true)
	var xs []*corev1.ReplicationController
	for _, w := range ws {
		tm := &corev1.PodTemplateSpec{ObjectMeta: metav1.ObjectMeta{Labels: w.tmpl}}
		xs = append(xs, &corev1.ReplicationController{ObjectMeta: metav1.ObjectMeta{Namespace: w.ns, Name: w.name},
			Spec: corev1.ReplicationControllerSpec{Selector: w.selMap, Template: tm}})
	}
	f := replicationcontroller.PodsFilter(xs...)
	p := filter.VSymPod("pod", zzverif.Param("OLABELS", 2))
	got := f.Accept(p)
	want, wantAnyNS := false, false
	for _, w := range ws {
		var m bool
		if len(w.selMap) > 0 {
			m = subset(w.selMap, p.Labels)
		} else {
			m = subset(w.tmpl, p.Labels)
		}
		want = zzverif.Or(want, zzverif.And(w.ns == p.Namespace, m))
		wantAnyNS = zzverif.Or(wantAnyNS, m)
	}
	ok := zzverif.Iff(got, want)
	// known class (F6): the namespace of the controller is ignored, i.e. the filter
	// behaves like the reference rule without its namespace clause
	clsNS := zzverif.Iff(got, wantAnyNS)
	zzverif.Assert(zzverif.Or(ok, clsNS), "C19/rc")
	zzverif.Assert(zzverif.Or(ok, zzverif.Not(clsNS)), "C19/rc/namespace-ignored")
	if got {
		zzverif.Reach("C19/rc/accept")
	} else {
		zzverif.Reach("C19/rc/reject")
	}
}

// VerifC19_Ingress: exactly the services named as backends by an ingress of the same namespace.
func VerifC19_Ingress() {
	n := zzverif.NondetInt("ing.n", 0, zzverif.Param("ING", 2))
	var ings []*netv1beta1.Ingress
	for i := 0; i < n; i++ {
		ing := &netv1beta1.Ingress{ObjectMeta: metav1.ObjectMeta{Namespace: zzverif.NondetString("ing.ns"), Name: zzverif.NondetString("ing.name")}}
		zzverif.Assume(ing.Namespace != "")
		if zzverif.NondetInt("ing.backend", 0, 1) == 1 {
			ing.Spec.Backend = &netv1beta1.IngressBackend{ServiceName: zzverif.NondetString("ing.be")}
		}
		nr := zzverif.NondetInt("ing.rules", 0, zzverif.Param("RULES", 2))
		for r := 0; r < nr; r++ {
			rule := netv1beta1.IngressRule{}
			if zzverif.NondetInt("ing.http", 0, 1) == 1 {
				http := &netv1beta1.HTTPIngressRuleValue{}
				np := zzverif.NondetInt("ing.paths", 0, zzverif.Param("PATHS", 2))
				for k := 0; k < np; k++ {
					http.Paths = append(http.Paths, netv1beta1.HTTPIngressPath{Backend: netv1beta1.IngressBackend{ServiceName: zzverif.NondetString("ing.pbe")}})
				}
				rule.HTTP = http
			}
			ing.Spec.Rules = append(ing.Spec.Rules, rule)
		}
		ings = append(ings, ing)
	}
	f := ingress.ServicesFilter(ings...)
	svc := &corev1.Service{ObjectMeta: metav1.ObjectMeta{Namespace: zzverif.NondetString("svc.ns"), Name: zzverif.NondetString("svc.name")}}
	// a service always has a name
	zzverif.Assume(svc.Name != "")
	got := f.Accept(svc)
	want := false
	for _, ing := range ings {
		named := false
		if be := ing.Spec.Backend; be != nil {
			named = zzverif.Or(named, be.ServiceName == svc.Name)
		}
		for _, rule := range ing.Spec.Rules {
			if rule.HTTP != nil {
				for _, p := range rule.HTTP.Paths {
					named = zzverif.Or(named, p.Backend.ServiceName == svc.Name)
				}
			}
		}
		want = zzverif.Or(want, zzverif.And(ing.Namespace == svc.Namespace, named))
	}
	zzverif.Assert(zzverif.Iff(got, want), "C19/ingress")
	if got {
		zzverif.Reach("C19/ingress/accept")
	} else {
		zzverif.Reach("C19/ingress/reject")
	}
}

// symOther: an object of another kind carrying the same metadata.
func symCandidate(tag string) (metav1.Object, int) {
	k := zzverif.NondetInt(tag+".kind", 0, 3)
	om := metav1.ObjectMeta{Namespace: zzverif.NondetString(tag + ".ns"), Name: zzverif.NondetString(tag + ".name"), Labels: filter.VSymLabels(tag+".labels", 1)}
	switch k {
	case 0:
		return &corev1.Pod{ObjectMeta: om, Spec: corev1.PodSpec{NodeName: zzverif.NondetString(tag + ".node")}}, 0
	case 1:
		return &corev1.Service{ObjectMeta: om, Spec: corev1.ServiceSpec{Selector: filter.VSymLabels(tag+".selector", 2)}}, 1
	case 2:
		return &corev1.Event{ObjectMeta: om, InvolvedObject: corev1.ObjectReference{
			Kind: zzverif.NondetString(tag + ".ikind"), Namespace: zzverif.NondetString(tag + ".ins"), Name: zzverif.NondetString(tag + ".iname")}}, 2
	default:
		return &corev1.Secret{ObjectMeta: om}, 3
	}
}

// VerifC19_Node: pods scheduled on one of the named nodes, nothing else.
func VerifC19_Node() {
	n := zzverif.NondetInt("nodes.n", 0, zzverif.Param("NODES", 2))
	var names []string
	for i := 0; i < n; i++ {
		names = append(names, zzverif.NondetString("node"))
	}
	f := pod.NodeFilter(names...)
	o, kind := symCandidate("o")
	got := f.Accept(o)
	want := false
	if p, ok := o.(*corev1.Pod); ok {
		for _, nm := range names {
			want = zzverif.Or(want, nm == p.Spec.NodeName)
		}
	}
	zzverif.Assert(zzverif.Iff(got, want), "C19/node")
	if kind != 0 {
		zzverif.Assert(!got, "C19/node/other-kind")
		zzverif.Reach("C19/node/other-kind")
	}
	if got {
		zzverif.Reach("C19/node/accept")
	}
}

// VerifC19_Involved: events whose involved object is the described one, nothing else.
func VerifC19_Involved() {
	kind, ns, name := zzverif.NondetString("f.kind"), zzverif.NondetString("f.ns"), zzverif.NondetString("f.name")
	var f filter.ComparableFilter
	if zzverif.NondetInt("f.byobject", 0, 1) == 1 {
		target := &corev1.Pod{TypeMeta: metav1.TypeMeta{Kind: kind}, ObjectMeta: metav1.ObjectMeta{Namespace: ns, Name: name}}
		f = event.InvolvedObjectFilter(target)
	} else {
		f = event.InvolvedFilter(kind, ns, name)
	}
	o, k := symCandidate("o")
	got := f.Accept(o)
	want := false
	if e, ok := o.(*corev1.Event); ok {
		want = zzverif.And(e.InvolvedObject.Kind == kind, e.InvolvedObject.Namespace == ns, e.InvolvedObject.Name == name)
	}
	zzverif.Assert(zzverif.Iff(got, want), "C19/involved")
	if k != 2 {
		zzverif.Assert(!got, "C19/involved/other-kind")
		zzverif.Reach("C19/involved/other-kind")
	}
	if got {
		zzverif.Reach("C19/involved/accept")
	}
}

// VerifC19_SelectorMatch: services whose (non-empty) selector is contained in the target labels.
func VerifC19_SelectorMatch() {
	target := filter.VSymLabels("target", zzverif.Param("PAIRS", 2))
	f := service.SelectorMatchFilter(target)
	o, k := symCandidate("o")
	got := f.Accept(o)
	want := false
	if s, ok := o.(*corev1.Service); ok {
		if len(s.Spec.Selector) > 0 && len(target) > 0 {
			want = subset(s.Spec.Selector, target)
		}
	}
	zzverif.Assert(zzverif.Iff(got, want), "C19/selector-match")
	if k != 1 {
		zzverif.Assert(!got, "C19/selector-match/other-kind")
		zzverif.Reach("C19/selector-match/other-kind")
	}
	if got {
		zzverif.Reach("C19/selector-match/accept")
	}
}
