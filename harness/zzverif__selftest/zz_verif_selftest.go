//go:build verif

// Package selftest validates the interpreter: small Go programs whose results
// are fixed by the language specification. Every assertion must hold both under
// gosym (./check SELF quick) and natively (go test with the native zzverif).
package selftest

import (
	"context"
	"errors"
	"sort"
	"sync"
	"sync/atomic"
	"time"

	"github.com/boz/kcache/zzverif"
)

type shape interface {
	Area() int
	Name() string
}
type base struct{ name string }

func (b base) Name() string { return b.name }

type rect struct {
	base
	w, h int
}

func (r rect) Area() int { return r.w * r.h }

type sq struct {
	*base
	s int
}

func (s *sq) Area() int { return s.s * s.s }

func namedResult() (r int) {
	defer func() { r *= 2 }()
	defer func() { r += 3 }()
	return 4 // (4+3)*2
}

func variadic(xs ...int) int {
	t := 0
	for _, x := range xs {
		t += x
	}
	return t + len(xs)*100
}

func VerifSelf_Sequential() {
	A := func(b bool, l string) { zzverif.Assert(b, "SELF/"+l) }
	// maps
	m := map[string]int{}
	m["a"] = 1
	m["b"] = 2
	m["a"] = 3
	delete(m, "zz")
	v, ok := m["a"]
	A(v == 3 && ok && len(m) == 2, "map/update")
	_, ok = m["c"]
	A(!ok, "map/missing")
	sum := 0
	for k, v := range m {
		if k == "a" {
			delete(m, "b") // deleting an entry not yet reached: it must not be produced
		}
		sum += v
	}
	A(sum == 3 || sum == 5, "map/delete-during-range")
	var nm map[string]int
	A(nm["x"] == 0 && len(nm) == 0, "map/nil-read")
	type key struct{ a, b string }
	km := map[key]bool{{"x", "y"}: true}
	A(km[key{"x", "y"}] && !km[key{"y", "x"}], "map/struct-key")
	// slices
	s := make([]int, 2, 4)
	t := append(s, 7)
	u := append(s, 8) // shares the backing array with t
	A(t[2] == 8 && u[2] == 8 && len(s) == 2, "slice/append-alias")
	w := append(t, 9, 10) // exceeds cap: new array
	w[0] = 42
	A(t[0] == 0 && w[0] == 42 && len(w) == 5, "slice/append-grow")
	x := []int{1, 2, 3, 4, 5}
	y := x[1:3:3]
	y = append(y, 99)
	A(x[3] == 4 && y[2] == 99 && cap(x[1:3]) == 4, "slice/three-index")
	n := copy(x, []int{9, 9})
	A(n == 2 && x[0] == 9 && x[2] == 3, "slice/copy")
	var ns []int
	A(ns == nil && len(ns) == 0 && len(append(ns, 1)) == 1, "slice/nil")
	sort.Slice(x, func(i, j int) bool { return x[i] > x[j] })
	A(x[0] == 9 && x[4] == 3, "slice/sort")
	strs := []string{"b", "a", "c"}
	sort.Strings(strs)
	A(strs[0] == "a" && strs[2] == "c", "slice/sort-strings")
	// arrays and structs are values
	arr := [3]int{1, 2, 3}
	arr2 := arr
	arr2[0] = 7
	A(arr[0] == 1 && arr2 == [3]int{7, 2, 3}, "array/value")
	r1 := rect{base{"r"}, 2, 3}
	r2 := r1
	r2.w = 5
	A(r1.Area() == 6 && r2.Area() == 15 && r1 != r2, "struct/value")
	pr := &r1
	pr.h = 10
	A(r1.Area() == 20, "struct/pointer")
	// interfaces, embedding, type switches
	var shapes []shape = []shape{r1, &sq{&base{"s"}, 3}}
	tot := 0
	names := ""
	for _, sh := range shapes {
		tot += sh.Area()
		names += sh.Name()
		switch v := sh.(type) {
		case rect:
			tot += v.w
		case *sq:
			tot += v.s * 1000
		}
	}
	A(tot == 20+9+2+3000 && names == "rs", "iface/dispatch")
	var e1 error
	var sh shape
	A(e1 == nil && sh == nil, "iface/nil")
	_, isSq := shapes[0].(*sq)
	A(!isSq, "iface/assert")
	// defer, named results, closures, variadics, method values
	A(namedResult() == 14, "defer/named-result")
	var fs []func() int
	for i := 0; i < 3; i++ {
		i := i
		fs = append(fs, func() int { return i * i })
	}
	A(fs[0]()+fs[1]()+fs[2]() == 5, "closure/capture")
	cnt := 0
	inc := func() { cnt++ }
	inc()
	inc()
	A(cnt == 2, "closure/shared")
	A(variadic() == 0 && variadic(1, 2) == 203 && variadic([]int{5}...) == 105, "variadic")
	af := r2.Area
	r2.w = 100
	A(af() == 15, "method-value/bound-copy")
	// integers
	var i8 int8 = 127
	i8++
	var u8 uint8 = 0
	u8--
	A(i8 == -128 && u8 == 255, "int/wrap")
	A(-7/2 == -3 && -7%2 == -1 && 7>>1 == 3 && -7>>1 == -4 && 1<<10 == 1024, "int/div-shift")
	var u32 uint32 = 1 << 31
	A(u32<<1 == 0 && int64(int32(u32)) == -2147483648 && uint64(u32) == 2147483648, "int/convert")
	// strings (concrete)
	str := "héllo"
	A(len(str) == 6 && str[1] == 0xc3 && str[:1]+"x" == "hx" && str > "hello", "string/basic")
	rc := 0
	for range str {
		rc++
	}
	A(rc == 5, "string/range-runes")
	// control flow
	out := 0
outer:
	for i := 0; i < 3; i++ {
		for j := 0; j < 3; j++ {
			if j == 2 {
				continue outer
			}
			if i == 2 {
				break outer
			}
			out += 10*i + j
		}
	}
	A(out == 0+1+10+11, "control/labels")
	sw := 0
	switch x := 2; x {
	case 2:
		sw += 1
		fallthrough
	case 3:
		sw += 10
	case 4:
		sw += 100
	}
	A(sw == 11, "control/fallthrough")
	// errors
	base := errors.New("base")
	A(errors.Is(base, base) && !errors.Is(base, errors.New("base")), "errors/is")
	zzverif.Reach("SELF/sequential")
}

func VerifSelf_Concurrent() {
	A := func(b bool, l string) { zzverif.Assert(b, "SELF/"+l) }
	// buffered FIFO, close, range, comma-ok
	ch := make(chan int, 3)
	ch <- 1
	ch <- 2
	ch <- 3
	close(ch)
	got := 0
	for v := range ch {
		got = got*10 + v
	}
	_, ok := <-ch
	A(got == 123 && !ok && len(ch) == 0 && cap(ch) == 3, "chan/fifo-close")
	// select with default / nil channel
	var nilch chan int
	sel := 0
	select {
	case <-nilch:
		sel = 1
	default:
		sel = 2
	}
	A(sel == 2, "select/default")
	// pipeline
	src, dst := make(chan int), make(chan int)
	go func() {
		for i := 1; i <= 3; i++ {
			src <- i
		}
		close(src)
	}()
	go func() {
		t := 0
		for v := range src {
			t += v * v
		}
		dst <- t
	}()
	A(<-dst == 14, "chan/pipeline")
	// mutex + waitgroup + atomic
	var mu sync.Mutex
	var wg sync.WaitGroup
	var cnt int
	var acnt atomic.Int64
	for i := 0; i < 3; i++ {
		wg.Add(1)
		go func() {
			defer wg.Done()
			mu.Lock()
			cnt++
			mu.Unlock()
			acnt.Add(2)
		}()
	}
	wg.Wait()
	A(cnt == 3 && acnt.Load() == 6, "sync/mutex-waitgroup-atomic")
	// once
	var once sync.Once
	calls := 0
	done := make(chan bool, 2)
	for i := 0; i < 2; i++ {
		go func() {
			once.Do(func() { calls++ })
			done <- true
		}()
	}
	<-done
	<-done
	A(calls == 1, "sync/once")
	// context
	ctx, cancel := context.WithCancel(context.Background())
	child, cancel2 := context.WithCancel(ctx)
	defer cancel2()
	A(ctx.Err() == nil, "context/not-cancelled")
	cancel()
	<-child.Done()
	A(child.Err() == context.Canceled && ctx.Err() == context.Canceled, "context/cancel-propagates")
	// timers
	idle := time.NewTimer(time.Hour) // no fire is allowed yet
	A(idle.Stop() && !idle.Stop(), "timer/stop-armed")
	zzverif.AllowTimerFires(2)
	tm := time.NewTimer(5)
	<-tm.C
	A(!tm.Stop(), "timer/fired")
	fired := make(chan bool, 1)
	time.AfterFunc(3, func() { fired <- true })
	A(<-fired, "timer/afterfunc")
	zzverif.Reach("SELF/concurrent")
}
