#!/usr/bin/env python3
"""Regenerates /verif/MANIFEST.json from the table below (kept valid at all times)."""
import json, os
HERE = os.path.dirname(os.path.abspath(__file__))
TECH = "bounded symbolic execution of the real go/ssa code (own engine gosym) with SMT (z3) deciding every branch and assertion; counterexamples replayed natively"
BASE_NOTE = ("Trusted base: the gosym interpreter's semantics for the go/ssa subset kcache uses, the stubs listed in the evidence "
             "(strconv.Atoi as an uninterpreted function, no-op logger, opaque error constructors, models of context/timer/reflect.DeepEqual/sort.Slice/"
             "meta.ExtractList/labels.NewRequirement), z3 4.8.12. Strings are compared by equality and order only. ")
CHECKS = {
 "C01": dict(
   text="One inductive step of the real cache kernel (doSync/doUpdate/doRefilter) from an arbitrary symbolic cache state satisfying the representation invariant, with arbitrary symbolic objects, versions (any Atoi outcome), keys (any aliasing), lists with duplicates and an arbitrary pure filter (uninterpreted function); z3 shows the post-state equals the reference semantics and re-establishes the invariant for every value within the bound, so the result extends to histories of any length. Bounded in cache size N and list length L only.",
   note="Bounds: quick N<=2 cached entries, L<=2 list entries; thorough N<=3, L<=3. Filters are arbitrary pure functions of (namespace,name,resourceVersion). Known finding F2 (duplicate keys, newest rejected) is listed in KNOWN_FINDINGS.txt.",
   ref="DESIGN.md §4 C01"),
 "C02": dict(
   text="Same symbolic step as C01: the events returned by the real doSync/doUpdate/doRefilter are replayed in order on the symbolic pre-state; z3 shows every event is well-formed (create on absent, update on present with strictly newer version, delete on present), that the replay result equals the post-state entry for entry, and that an unchanged cache emits no event, for every input within the bound.",
   note="Bounds as C01 (quick N,L<=2; thorough N,L<=3). The publish-exactly clauses at controller/filter-subscription level are covered by the C03/C06 harnesses.",
   ref="DESIGN.md §4 C02"),
 "C18": dict(
   text="The real Accept methods of filter.Null/All/Not/And/Or/NSName/Labels/LabelSelector/Selector (and the k8s labels code they call: SelectorFromSet, LabelSelectorAsSelector, Requirement.Matches, internalSelector.Matches) are executed symbolically on filter terms with solver-chosen structure and symbolic leaf arguments, against a symbolic object (namespace, name, label map with symbolic keys/values); z3 shows Accept equals an independent reference evaluator written from the property text, and that a second Accept returns the same value, for every value within the bound.",
   note="Bounds: combinator terms to depth 3 with arity <=2 (thorough additionally depth 2 with arity <=4) over arbitrary leaf filters; NSName with <=3 (4) entries, both-empty entries assumed away as the property says; label maps <=2 pairs; LabelSelector with <=1 (2) matchLabels and <=2 matchExpressions (In/NotIn/Exists/DoesNotExist, <=2 values). labels.NewRequirement's syntax validation is stubbed (all keys/values assumed syntactically valid).",
   ref="DESIGN.md §4 C18"),
 "C19": dict(
   text="The seven real PodsFilter constructors, ingress.ServicesFilter, pod.NodeFilter, event.InvolvedFilter/InvolvedObjectFilter and service.SelectorMatchFilter are executed symbolically on <=2-3 symbolic workloads (symbolic namespaces, names, selectors, template labels) and a symbolic candidate object of a solver-chosen kind; z3 shows Accept equals the ownership rule written from the property text for every value within the bound.",
   note="Bounds: quick W<=2 workloads with matchLabels-only selectors plus W<=1 with one matchExpression, plus W<=3 with single-pair maps and a concrete-label variant for the map-selector kinds (service, replication controller); thorough W<=3 with single-pair maps for every kind and W<=1 with two expressions; ingress <=2 ingresses with default backend and <=1 (2) rules x 1 path; label maps <=2 pairs. Workload namespaces are assumed non-empty (namespaced API objects). Known finding F6 (replication controller filter ignores the namespace) is listed in KNOWN_FINDINGS.txt.",
   ref="DESIGN.md §4 C19"),
 "C17": dict(
   text="FiltersEqual and every real Equals/Accept (nullFilter, allFilter, notFilter, andFilter, orFilter, nsNameFilter, selectorFilter, fnFilter, nodeFilter, involvedFilter, serviceForFilter, the seven PodsFilter, ServicesFilter) are executed symbolically on two independently built filters with solver-chosen structure and symbolic arguments plus a symbolic object; z3 shows that whenever equality is reported both filters agree on the object, that nil / non-comparable cases follow the contract, and that filters built twice from the same arguments (workload filters also from the reversed argument order) compare equal, for every value within the bound.",
   note="Bounds: generic terms to depth 2 over {Null, All, arbitrary leaf, NSName, Labels, FN, Not, And, Or} with arity <=2; NSName <=2 (3) ids per side; Labels/LabelSelector/Selector pairs with <=2 pairs and <=1 expression; typed pairs one workload per side (same-argument and reversed-order checks with <=2 workloads). reflect.DeepEqual is modelled structurally (documented rules); label keys are assumed non-empty; a targeted entry compares composites that differ only by nesting (nested vs flattened, inner kind swapped, nesting order swapped) because generic depth-3 terms do not finish; selectors with two requirements on the same key are outside the claim.",
   ref="DESIGN.md §4 C17"),
 "C06": dict(
   text="The real filterSubscription.run with its real private cache actor runs below a fake parent subscription whose cache is a second real cache actor mutated by the environment; the environment performs K actions (parent ready, arbitrary parent change with symbolic type/key/version, Refilter to one of four arbitrary filters incl. a non-comparable one) in every order, and every interleaving of the goroutines is explored (sleep-set partial-order reduction). At every quiescent point z3 shows the cache equals the parent content filtered by the most recently set filter at the parent's versions, and that the subscription's own events replay to its own cache.",
   note="Bounds: quick K<=3 actions after <=1 pre-existing parent object, thorough K<=4; immediate and deferred variants; filters picked from three arbitrary filters, a non-comparable one and the initial filter; plus a nested entry (filtered subscription below a filtered clone, K<=2 (3)) asserting the conjunction of both filters. Filters are arbitrary pure functions. Schedules: all interleavings of completed communications; local steps run first; data-race freedom (needed by the reduction) is checked with vector clocks.",
   ref="DESIGN.md §4 C06"),
 "C07": dict(
   text="Same real code as C06 in the property's situation: a ready filtered subscription over <=2 parent objects with nothing in flight, then Refilter(f2) and optionally Refilter(f3) with filters from {three arbitrary filters, accept-all, accept-none}; z3 shows the events observed are exactly one Delete per cached object the new filter rejects and one Create per parent object newly accepted, nothing for an equal filter, and that returning to the first filter restores the first view.",
   note="Bounds: parent content <=2 (thorough 3) objects with symbolic keys/versions; 1-2 refilter steps over 8 filters (three arbitrary ones, accept-all, accept-none, and three nested NSName filters over the parent's own keys; all ordered pairs, and triples ending anywhere); immediate subscriptions and for-filter (deferred) subscriptions that became ready through their first Refilter (before or after the parent was ready); optionally an away-and-straight-back pair of Refilter calls without waiting in between. Arbitrary filters are uninterpreted functions, which subsumes equal/overlapping/disjoint families.",
   ref="DESIGN.md §4 C07"),
 "C08": dict(
   text="Real filterSubscription.run (immediate and deferred) driven by the property's action alphabet {parent ready, Refilter(equal), Refilter(new), parent change} in every order up to K, with two concurrent observers: one waits for Ready() and immediately reads the cache, one waits for the first event. z3 shows Ready closes iff the parent is ready (and, deferred, a filter was supplied), the read made on observing Ready is the filtered parent content of some moment, and the first event is delivered only after Ready closed.",
   note="Bounds: quick K<=3, thorough K<=4, <=1 pre-existing parent object; a depth entry puts a subscriber, a clone and a subscriber of that clone (depth 3) below the filtered clone and asserts the same readiness at every depth; the controller clauses run the C03/C14 controller harnesses. The controller clause (first list fully applied / failed first list never ready) is covered by the C03/C14 harnesses.",
   ref="DESIGN.md §4 C08"),
 "C16": dict(
   text="Real NewMonitor/monitor.run against a fake subscription; the environment performs K actions from {subscription ready, event of symbolic type and object, close subscription, close monitor} in every order while handler callbacks may be arbitrarily slow (a scheduling point inside every callback); all interleavings explored. z3/the engine show: OnInitialize at most once, first, with the cache content; exactly one callback per received event matching type and object in order; callbacks never overlap; none after Done; none if never ready.",
   note="Bounds: quick K<=4, thorough K<=5 actions; events <=K; the List at readiness either succeeds or fails with ErrNotRunning (then: no callback, monitor done with an error). Typed monitors are covered under C20.",
   ref="DESIGN.md §4 C16"),
 "C03": dict(
   text="The real controller.run and the real cache actor run between a fake lister, a recording subscription and a fake watcher whose event channel the environment feeds with ARBITRARY symbolic events (any type, key, version), which over-approximates every watch fault (never connects, drops, duplicates, replays, reordering). The environment performs K actions {list completes, watch event, list completes while a watch event is in flight}; all interleavings explored. From a snapshot taken inside watcher.reset (i.e. right after the sync) z3 shows: every cached key was listed, every listed accepted object is present and never older than listed, the exact reference result when nothing was in flight, one reset per list with the list's version, nothing published for the initial list, and that replaying the published events from the content at readiness always equals the cache.",
   note="Bounds: K<=3 actions with lists of <=1 object and K<=2 with lists of <=2 objects (K<=4/L<=1 and K<=3/L<=2 exceed 15 minutes and are not registered). A third entry (VerifC03_Relist) replaces the fake watcher by the REAL watcher and sessions over a fake API server with <=1 (thorough 2) watch events between two lists and asserts the cache equals the second list whatever the watch delivered or still buffers. Watch events before the first list are excluded (the real watcher has no session before its first reset). The liveness half (relists keep coming) is C13; the composition is argued in DESIGN.md.",
   ref="DESIGN.md §4 C03"),
 "C13": dict(
   text="The real lister and ticker run against the engine's timer model with a SYMBOLIC logical clock: the configured period and every jittered period are arbitrary 64-bit values, timer fires are environment transitions, the fake List blocks until released or cancelled. All interleavings of up to CYCLES list/consume cycles and FIRES timer fires are explored; z3 shows each List call starts no earlier than one period after the clock value read before the previous result was consumed, calls never overlap, no reachable state is stuck while a list is awaited, and after closing the stop channel at any point the lister is Done with every library goroutine gone.",
   note="Bounds: quick <=2 cycles and <=3 fires, thorough <=3 cycles and <=4 fires. ticker.nextPeriod (float64 arithmetic on a random number: unknown at 120 s in z3/z3-5.1/cvc5) is replaced by an arbitrary duration >= the configured period, so the +-10% numeric range is outside the claim. 'Eventually' is absence of stuck states within the bound.",
   ref="DESIGN.md §4 C13"),
 "C14": dict(
   text="Real controller.run with the k-th list result (k<=3) being a client error, a non-list object, a list whose items are not API objects, or an object without list accessor; the engine explores all interleavings and shows the controller is Done, Error() is non-nil and (for a client error) its cause chain ends in the injected error, the cache is shut down, no further list is applied, nothing is ready when k=1, every library goroutine has exited; a deliberate Close() reports no error. Watch faults never terminate the controller (C03/C04 harnesses assert it for every fault sequence they explore).",
   note="Bounds: k<=3 (thorough 4); a lister entry runs the REAL lister (executeList) with the k-th list call failing with a client error, an error that is or wraps context.Canceled although nothing was cancelled, or a non-list object, and asserts the failure reaches the controller; a tree entry runs the controller with its REAL subscription and publisher and a subscriber (thorough: plus a filtered subscriber) and asserts the whole subtree is Done with Events() closed. meta.ExtractList is modelled (reflection), meta.ListAccessor runs for real. The subscriber tree below a real Builder.Create() composition is covered by C11/C12.",
   ref="DESIGN.md §4 C14"),
 "C04": dict(
   text="The real watcher and watch sessions run under the real controller loop against a fake API server with a history of n events (symbolic keys, solver-chosen types): every Watch(rv) call either fails or streams the events newer than rv interleaved with Status / Bookmark frames, and may close before any event or after the burst, within a fault budget; retry timers fire as environment transitions; exactly one list is delivered. All interleavings of controller, watcher, sessions, streams and timers are explored (sleep sets + state cache). At quiescence every event of the history has been applied to the cache in history order (replays allowed, skips not) and published, every Watch call resumes at the list version or at an event version, and neither watcher nor controller has terminated.",
   note="Bounds: quick n<=2 events with <=1 fault and n<=1 with <=2 faults (connect error or close at any position), thorough n<=2 with <=2 faults (n=3 does not finish in 15 minutes); the final Watch call is served without fault (otherwise the premise 'the server emits it' fails); EventBufsiz scaled to 3 - no overflow occurs within the bound. Consumer/producer speed ratios = all interleavings.",
   ref="DESIGN.md §4 C04"),
 "C05": dict(
   text="Real publisher.run / _subscription.run (and clones of clones) below a fake root subscription: the environment publishes opaque events and attaches subscribers and clones at solver-chosen points of the stream (optionally at a quiescent moment), in every order up to K actions, including closing one of the subscribers mid-stream, with every iteration order of the publisher's subscription map; all interleavings explored. At quiescence z3/the engine show every subscriber received a contiguous suffix of the published sequence, in order, without duplicate, containing at least every event published after its Subscribe returned (exactly those when it subscribed at a quiescent moment). The cache-not-older clause is asserted in the controller harness (send happens after the cache update).",
   note="Bounds: K<=5 actions, clone depth <=3 (K=6 exceeds 15 minutes with mixed streams and is not registered). Streams mix creates, strictly newer updates and deletes. Backlog stays below the real EventBufsiz (100). Map iteration order of the subscription set is insertion order (order of sends to different subscribers is not observable by them).",
   ref="DESIGN.md §4 C05"),
 "C10": dict(
   text="Real publisher / subscription / filtered clone / filtered subscription / monitor with one consumer that never reads and one healthy consumer that keeps its backlog below the buffer, for streams of 0..2B+1 events with EventBufsiz scaled to B; all interleavings explored. The engine shows no stuck state (the stream is always accepted), the healthy consumer receives all events in order, the parent cache holds all objects, and what the stalled consumer later drains is an in-order subsequence of at least min(m,B) events.",
   note="Bounds: B=2, streams of creates and deletes of length <=4 (thorough 5), plus, for the stalled filtered subscription, a Refilter that produces events while its buffer is full followed by another event and another Refilter; four placements of the stalled consumer (sibling subscriber, subscriber of a clone, subscriber of a filtered clone, filtered subscription next to a monitor). The real constant 100 is outside the claim (the code is parametric in it; scaling is recorded in the evidence).",
   ref="DESIGN.md §4 C10"),
 "C11": dict(
   text="Trees of real publisher / subscription / filtered subscription / clone / filtered clone / monitor nodes below a fake root, shape chosen by the solver; one node (or the root's parent) is closed before any event, mid-stream or at a quiescent point; all interleavings explored. At quiescence every node of the closed subtree is Done with its Events() closed, every other node is not Done and receives a subsequent event.",
   note="Bounds: quick all single-node shapes (mid-stream included) plus all two-sibling shapes, each with a ready or not-yet-ready root and optionally a Refilter on the filtered nodes just before the close, plus the controller with its real subscription/publisher and one subscriber; thorough adds two-level chains (depth 3) and a filtered subscriber below the controller. Deeper trees do not finish (see DESIGN.md: state explosion of shutdown cascades).",
   ref="DESIGN.md §4 C11"),
 "C12": dict(
   text="Termination is decided per component group with one oracle (no stuck state, Done closes, every library goroutine exits, API calls return a result or ErrNotRunning): real watcher+sessions with resets, server-side stream drops followed by timer-driven reconnects, and shutdown arriving while Watch() is connecting/connected/reconnected (fake client blocks until cancelled: exactly the property's proviso); real cache actor with calls in flight; real publisher with Subscribe/Clone/SubscribeWithFilter racing with shutdown; real controller loop with Close, concurrent Close, list error and a cancellation-valued list error at every workload point; real lister+ticker at every point of the list/tick cycle. All interleavings explored in each group.",
   note="The full composition below Builder.Create() does not finish even for the empty workload (>1.7M paths in 300 s), so the claim is compositional: each group with fakes honouring the interfaces between them; cross-group cascades (controller waiting for cache/watcher/lister Done) are covered by the controller group with fakes that stop on shutdown. Context cancellation of the root is covered for cache and watcher groups.",
   ref="DESIGN.md §4 C12"),
 "C15": dict(
   text="The real cache actor with a writer moving through distinguishable complete states via sync/refilter and two concurrent readers (List, Get), all interleavings explored: every List equals exactly one of the states (never half-applied), is not older than a write the reader already knew complete, successive reads never go backwards, mutating the returned slice affects nobody. The engine's vector-clock check reports any access to cache state that is not ordered by channel operations (data race) as a violation.",
   note="Bounds: quick 2 writes, 2 readers x 2 reads; thorough 3 writes. A second entry reads the cache of a filtered subscription concurrently with a Refilter (arbitrary old and new filter, <=2 parent objects) and asserts the read is the complete old or the complete new view. Race detection covers the explored schedules and the Go memory model restricted to channel/goroutine-start/close ordering; go test -race is a different technique and not used.",
   ref="DESIGN.md §4 C15"),
 "C09": dict(
   text="Wiring link of the join property, on real code: each of the 8 generated XYsWith joins (through its default wrapper) and IngressPods runs with the real typed monitors and kcache.monitor between fake untyped controllers (typed objects are the real typed wrappers). The environment makes the source ready and performs K source changes (appear / change / disappear, symbolic namespaces, names, selectors); at every quiescent point z3 shows the filter most recently handed to the destination's for-filter clone equals (FiltersEqual, and agrees on a symbolic pod with) the join's selection rule applied to the current source content, that nothing is refiltered before the source is ready, and that closing the result closes the clone and the monitor's subscription, leaves source and destination running, and leaves no library goroutine behind; for IngressPods also that the intermediate join is closed.",
   note="Compositional claim: join cache = destination objects selected by current source objects follows from this link + C19 (selection rules) + C06/C08 (for-filter clone content and readiness) + C16 (monitor ordering); the end-to-end system of two controllers is not explored as one state space. Bounds: <=1 initial source object, K<=2 (thorough 3) changes (end-to-end entry: <=4 actions), selectors with one symbolic label; for ServicePods additionally a concrete-label variant checked against an independent statement of the selection rule (not the library's PodsFilter), and an end-to-end entry whose destination is REAL (publisher, for-filter clone with its filterSubscription and cache actor, typed wrappers): for every order of <=3 (4) actions {source ready, destination ready, pod arrives, source selection changes} the join is ready iff both sides are and its cache holds exactly the pods selected by the current source objects. Source namespaces are assumed non-empty.",
   ref="DESIGN.md §4 C09"),
 "C20": dict(
   text="Decided semantically, with the identical harness text generated for each of the 12 typed packages: adaptList/typed cache List/Get/wrapEvent on symbolic mixed lists of own-typed and foreign-typed objects equal the untyped result restricted to the type; the real typed subscription.run and typed NewMonitor (over the real kcache.monitor) forward exactly the own-typed events in order and skip foreign ones; Ready/Done/Close/Refilter delegate to the parent; each typed NewClient asks client.ForResource for the API group accessor, resource name and (symbolic) namespace of its own type, the empty namespace passed through. The 8 generated joins satisfy one common wiring specification (C09 harness).",
   note="Not applicable clauses (stated in DESIGN.md §5): textual equality of generated sources with the instantiated template is a syntactic diff, not a solver question - replaced by behavioural equivalence to one specification; the HTTP paths/queries built by client-go are outside the interpretable subset - only the arguments kcache passes (group client, resource, namespace) are checked. Bounds: lists <=3 (4) objects, streams <=2 (3) events; a lifecycle entry calls all six typed Publisher operations on a running and on a stopped core and asserts typed objects resp. the core's error without an object or a crash.",
   ref="DESIGN.md §4 C20"),
}
NOT_APPLICABLE = {}
PENDING = "check under construction in this session: harness not yet registered (no claim is made)"
ALL = ["C%02d" % i for i in range(1, 21)]
def main():
    checks = []
    for pid in ALL:
        if pid not in CHECKS: continue
        c = CHECKS[pid]
        checks.append({
          "property_id": pid,
          "quick_cmd": "./check %s quick" % pid,
          "thorough_cmd": "./check %s thorough" % pid,
          "evidence_file": "/verif/evidence/%s.json" % pid,
          "replay_cmd_template": "./replay.sh %s {path}" % pid,
          "engine": "gosym",
          "level_claimed": {"category": c.get("category", "model_checking"), "text": c["text"], "design_ref": c["ref"]},
          "level_note": BASE_NOTE + c["note"],
          "technique": c.get("technique", TECH),
        })
    na = []
    for pid in ALL:
        if pid in CHECKS: continue
        na.append({"property_id": pid, "reason": NOT_APPLICABLE.get(pid, PENDING)})
    m = {
      "version": 1,
      "setup_cmd": "cd /verif/engine && GOFLAGS=-mod=mod GOPROXY=off GOSUMDB=off GOTOOLCHAIN=local go build -o /verif/bin/gosym .",
      "hooks": {
        "guard": "verif",
        "enable": "no hook is committed to /repo: harness files (//go:build verif) and the zzverif API package are injected by overlay (go/packages Overlay for the symbolic run, go test -overlay -tags verif for native replay)",
        "baseline_off_cmd": "/verif/baseline.sh",
        "source_commits": [],
        "add_only": True
      },
      "engines": [{"name": "gosym", "path": "/verif/engine", "serves_properties": sorted(CHECKS), "kind_free_text": "symbolic interpreter for go/ssa (goroutines, channels, select, timers, contexts) with z3 back end; harnesses under /verif/harness are overlaid into the real packages"}],
      "checks": checks,
      "notes": "Exit codes of ./check: 0 held (KNOWN-FINDING lines allowed), 1 VIOLATION, 2 INCONCLUSIVE (unsupported construct, solver unknown, vacuity witness missing, counterexample not reproduced natively). Known findings: /verif/KNOWN_FINDINGS.txt.",
      "not_applicable": na,
    }
    json.dump(m, open(os.path.join(HERE, "MANIFEST.json"), "w"), indent=1)
    print("MANIFEST.json: %d checks, %d not_applicable" % (len(checks), len(na)))
main()
