#!/usr/bin/env python3
"""Regenerates /verif/MANIFEST.json from the table below (kept valid at all times)."""
import json, os
HERE = os.path.dirname(os.path.abspath(__file__))
TECH = "bounded symbolic execution of the real go/ssa code (own engine gosym) with SMT (z3) deciding every branch and assertion; counterexamples replayed natively"
BASE_NOTE = ("Trusted base: the gosym interpreter's semantics for the go/ssa subset kcache uses, the stubs listed in the evidence "
             "(strconv.Atoi as an uninterpreted function, no-op logger, opaque error constructors, models of context/timer/reflect.DeepEqual/sort.Slice/"
             "meta.ExtractList/labels.NewRequirement), z3 4.8.12. Strings are compared by equality and order only. ")
CHECKS = {
 "C01": dict(
   text="One inductive step of the real cache kernel (doSync/doUpdate/doRefilter) from an arbitrary symbolic cache state satisfying the representation invariant, with arbitrary symbolic objects, versions (any Atoi outcome), keys (any aliasing), lists with duplicates and an arbitrary pure filter (uninterpreted function); z3 shows the post-state equals the reference semantics and re-establishes the invariant for every value within the bound, so the result extends to histories of any length. Bounded in cache size N and list length L only.",
   note="Bounds: quick N<=2 cached entries, L<=2 list entries; thorough N<=3, L<=3. Filters are arbitrary pure functions of (namespace,name,resourceVersion). Known finding F2 (duplicate keys, newest rejected) is listed in KNOWN_FINDINGS.txt.",
   ref="DESIGN.md §4 C01"),
 "C02": dict(
   text="Same symbolic step as C01: the events returned by the real doSync/doUpdate/doRefilter are replayed in order on the symbolic pre-state; z3 shows every event is well-formed (create on absent, update on present with strictly newer version, delete on present), that the replay result equals the post-state entry for entry, and that an unchanged cache emits no event, for every input within the bound.",
   note="Bounds as C01 (quick N,L<=2; thorough N,L<=3). The publish-exactly clauses at controller/filter-subscription level are covered by the C03/C06 harnesses.",
   ref="DESIGN.md §4 C02"),
}
NOT_APPLICABLE = {}
PENDING = "check under construction in this session: harness not yet registered (no claim is made)"
ALL = ["C%02d" % i for i in range(1, 21)]
def main():
    checks = []
    for pid in ALL:
        if pid not in CHECKS: continue
        c = CHECKS[pid]
        checks.append({
          "property_id": pid,
          "quick_cmd": "./check %s quick" % pid,
          "thorough_cmd": "./check %s thorough" % pid,
          "evidence_file": "/verif/evidence/%s.json" % pid,
          "replay_cmd_template": "./replay %s {path}" % pid,
          "engine": "gosym",
          "level_claimed": {"category": c.get("category", "model_checking"), "text": c["text"], "design_ref": c["ref"]},
          "level_note": BASE_NOTE + c["note"],
          "technique": c.get("technique", TECH),
        })
    na = []
    for pid in ALL:
        if pid in CHECKS: continue
        na.append({"property_id": pid, "reason": NOT_APPLICABLE.get(pid, PENDING)})
    m = {
      "version": 1,
      "setup_cmd": "cd /verif/engine && GOFLAGS=-mod=mod GOPROXY=off GOSUMDB=off GOTOOLCHAIN=local go build -o /verif/bin/gosym .",
      "hooks": {
        "guard": "verif",
        "enable": "no hook is committed to /repo: harness files (//go:build verif) and the zzverif API package are injected by overlay (go/packages Overlay for the symbolic run, go test -overlay -tags verif for native replay)",
        "baseline_off_cmd": "/verif/baseline.sh",
        "source_commits": [],
        "add_only": True
      },
      "engines": [{"name": "gosym", "path": "/verif/engine", "serves_properties": sorted(CHECKS), "kind_free_text": "symbolic interpreter for go/ssa (goroutines, channels, select, timers, contexts) with z3 back end; harnesses under /verif/harness are overlaid into the real packages"}],
      "checks": checks,
      "notes": "Exit codes of ./check: 0 held (KNOWN-FINDING lines allowed), 1 VIOLATION, 2 INCONCLUSIVE (unsupported construct, solver unknown, vacuity witness missing, counterexample not reproduced natively). Known findings: /verif/KNOWN_FINDINGS.txt.",
      "not_applicable": na,
    }
    json.dump(m, open(os.path.join(HERE, "MANIFEST.json"), "w"), indent=1)
    print("MANIFEST.json: %d checks, %d not_applicable" % (len(checks), len(na)))
main()
