#!/usr/bin/env python3
"""Writes /verif/seeded/<id>/meta.json and the seeded-changes table in DESIGN.md (section 0.6)."""
import json, os, re
HERE=os.path.dirname(os.path.abspath(__file__))
# id: (property, site, what it needs to manifest, check result, caught-by / note)
SEEDS = {
 "C01-a": ("C01","cache.go doSync: the stale-entry arm consults the filter verdict of the LISTED (older) object instead of the cached one","a cached key, then a sync/refilter whose list carries an older version of that key on which the filter disagrees with the cached version","caught","C01 quick: C01/content/sync/winner-present, winner-rejected-absent, invariant/accepted (natively reproduced)"),
 "C03-a": ("C03","watcher.go: the event buffer is allocated once and survives reset()","a DELETE frame still buffered in the watcher when a relist completes and is applied first: the stale delete removes an object the list contained","caught after strengthening","missed by the first C03 harness (fake watcher); caught by the added VerifC03_Relist (real watcher + sessions + real cache under the controller loop, two lists): C03/cache-equals-list/after-relist (natively reproduced)"),
 "C04-a": ("C04","watch_session.go + watcher.go: resume version taken from the last frame the SESSION read, not the last event the watcher took over","stream closes right after a burst while events are still buffered in the session and the watcher sees done first","caught","C04 quick: C04/applied-all, C04/published"),
 "C05-a": ("C05","publisher.go distributeEvent: return on the first failing send","a sibling subscription closed while an event is being distributed and visited first in the subscription map","caught after strengthening","missed by the first C05 harness (no subscriber ever closed, insertion-order map iteration); caught after adding the action 'close a sibling' and exploring all map orders: C05/exact-suffix/complete"),
 "C06-a": ("C06","subscription_filter.go: pre-ready Refilter(new) no longer records s.filter","Refilter(B) before the parent is ready, later Refilter back to the initial filter","caught","C06 quick: C06/content/*"),
 "C08-a": ("C08","subscription_filter.go: refilter switch regrouped; deferred + equal filter closes Ready without the parent being ready","deferred variant, first Refilter equal to the initial filter, before parent ready","caught","C08 quick: C08/ready-iff-synced, C08/deferred-needs-filter (natively reproduced)"),
}
rows=[]
for sid,(prop,site,needs,res,by) in sorted(SEEDS.items()):
    d=os.path.join(HERE,"seeded",sid)
    if not os.path.isdir(d): continue
    meta={"seed":sid,"property":prop,"site":site,"needs_to_manifest":needs,"confirmed_by":"/verif/confirm_seed.sh (build ok, unedited suite passes with the change, demonstration passes without and fails with it)",
          "checked_with":"/verif/seedtest.sh %s %s"%(d,prop),"result":res,"detail":by}
    json.dump(meta,open(os.path.join(d,"meta.json"),"w"),indent=1)
    rows.append("| %s | %s | %s | %s | **%s** — %s |"%(sid,prop,site,needs,res,by))
tbl="| seed | property | change | needs | result |\n|---|---|---|---|---|\n"+"\n".join(rows)
p=os.path.join(HERE,"DESIGN.md"); s=open(p).read()
s=re.sub(r"<!-- SEEDTABLE-BEGIN -->.*<!-- SEEDTABLE-END -->","<!-- SEEDTABLE-BEGIN -->\n"+tbl+"\n<!-- SEEDTABLE-END -->",s,flags=re.S)
open(p,"w").write(s)
print(len(rows),"seeds")
