#!/usr/bin/env python3
"""Writes /verif/seeded/<id>/meta.json and the seeded-changes table in DESIGN.md (section 0.6)."""
import json, os, re
HERE=os.path.dirname(os.path.abspath(__file__))
# id: (property, site, what it needs to manifest, check result, caught-by / note)
SEEDS = {
 "C01-a": ("C01","cache.go doSync: the stale-entry arm consults the filter verdict of the LISTED (older) object instead of the cached one","a cached key, then a sync/refilter whose list carries an older version of that key on which the filter disagrees with the cached version","caught","C01 quick: C01/content/sync/winner-present, winner-rejected-absent, invariant/accepted (natively reproduced)"),
 "C03-a": ("C03","watcher.go: the event buffer is allocated once and survives reset()","a DELETE frame still buffered in the watcher when a relist completes and is applied first: the stale delete removes an object the list contained","caught after strengthening","missed by the first C03 harness (fake watcher); caught by the added VerifC03_Relist (real watcher + sessions + real cache under the controller loop, two lists): C03/cache-equals-list/after-relist (natively reproduced)"),
 "C04-a": ("C04","watch_session.go + watcher.go: resume version taken from the last frame the SESSION read, not the last event the watcher took over","stream closes right after a burst while events are still buffered in the session and the watcher sees done first","caught","C04 quick: C04/applied-all, C04/published"),
 "C05-a": ("C05","publisher.go distributeEvent: return on the first failing send","a sibling subscription closed while an event is being distributed and visited first in the subscription map","caught after strengthening","missed by the first C05 harness (no subscriber ever closed, insertion-order map iteration); caught after adding the action 'close a sibling' and exploring all map orders: C05/exact-suffix/complete"),
 "C06-a": ("C06","subscription_filter.go: pre-ready Refilter(new) no longer records s.filter","Refilter(B) before the parent is ready, later Refilter back to the initial filter","caught","C06 quick: C06/content/*"),
 "C08-a": ("C08","subscription_filter.go: refilter switch regrouped; deferred + equal filter closes Ready without the parent being ready","deferred variant, first Refilter equal to the initial filter, before parent ready","caught","C08 quick: C08/ready-iff-synced, C08/deferred-needs-filter (natively reproduced)"),
 "C10-a": ("C10","subscription.go _subscription.run: on buffer overrun a DELETE event blocks until there is room instead of being dropped","a stalled consumer whose buffer is completely full, then a delete, then at least one more event","caught after strengthening","missed by the first C10 harness (create-only streams); caught after publishing mixed create/delete streams: C10/healthy-complete, C10/healthy/exact-suffix/*"),
 "C11-a": ("C11","subscription_filter.go: parent events are not read between a pre-ready Refilter(new) and parent readiness","a filtered node, Refilter(new) while the parent is not ready, and a close before the parent becomes ready","caught after strengthening","missed by the first C11 harness (root always ready, no refilter); caught after adding not-yet-ready roots and refilter-before-close: C11/subtree-done, C11/stuck (natively reproduced)"),
 "C12-a": ("C12","watcher.go: the session created on the reconnect path hangs off w.ctx instead of the run loop's cancelable context","controller ready, server drops the watch, retry delay elapses and the reconnect succeeds, then Close()","caught after strengthening","missed by the first C12 watcher harness (no reconnect path); caught after adding 'server drops the stream, retry timer fires, reconnect': C12/stuck"),
 "C13-a": ("C13","ticker.go Reset: blocking drain of timer.C restored (the original F4)","list latency + consumption delay longer than the period","caught","C13 quick: C13/stuck, C13/prompt-shutdown (natively reproduced)"),
 "C16-a": ("C16","monitor.go run: readiness folded into the event loop, events consumed before Ready","an event buffered in the monitor's subscription before readiness","caught","C16 quick: C16/init-once-first, C16/no-callback-if-never-ready, C16/one-per-event (natively reproduced)"),
 "C17-a": ("C17","filter/filter.go nsNameFilter.Equals: fast path compares only fully-qualified ids when the receiver has no partial ids","receiver NSName without partials, argument with the same full ids plus a partial id","caught","C17 quick: C17/sound/nsname, C17/sound/ingress (natively reproduced)"),
 "C19-a": ("C19","types/service/filter.go PodsFilter: one namespace filter per run of equal namespaces, selector-less services skipped before the boundary check","at least 3 services over 2 namespaces with a selector-less service first in the later namespace","caught after strengthening","missed at W<=2 workloads; caught after adding 3-workload entries with small label maps for the map-selector kinds: C19/service (natively reproduced)"),
}
rows=[]
for sid,(prop,site,needs,res,by) in sorted(SEEDS.items()):
    d=os.path.join(HERE,"seeded",sid)
    if not os.path.isdir(d): continue
    meta={"seed":sid,"property":prop,"site":site,"needs_to_manifest":needs,"confirmed_by":"/verif/confirm_seed.sh (build ok, unedited suite passes with the change, demonstration passes without and fails with it)",
          "checked_with":"/verif/seedtest.sh %s %s"%(d,prop),"result":res,"detail":by}
    json.dump(meta,open(os.path.join(d,"meta.json"),"w"),indent=1)
    rows.append("| %s | %s | %s | %s | **%s** — %s |"%(sid,prop,site,needs,res,by))
tbl="| seed | property | change | needs | result |\n|---|---|---|---|---|\n"+"\n".join(rows)
p=os.path.join(HERE,"DESIGN.md"); s=open(p).read()
s=re.sub(r"<!-- SEEDTABLE-BEGIN -->.*<!-- SEEDTABLE-END -->","<!-- SEEDTABLE-BEGIN -->\n"+tbl+"\n<!-- SEEDTABLE-END -->",s,flags=re.S)
open(p,"w").write(s)
print(len(rows),"seeds")
