#!/bin/bash
# usage: mut.sh <file-in-repo> <sed-expr> <property> [tier]  -- apply a mutation, run the check, restore
f=$1; expr=$2; prop=$3; tier=${4:-quick}
cd /repo && cp $f /tmp/mut_backup && sed -i "$expr" $f && git diff --stat | tail -1
if git diff --quiet; then echo "MUTATION DID NOT APPLY"; exit 3; fi
(cd /repo && go build ./... 2>&1 | head -3)
cd /verif && ./check $prop $tier 2>&1 | grep -E "VIOLATION|OK property|INCONCLUSIVE|label=" | head -8
cd /repo && git checkout -- $f
