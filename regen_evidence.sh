#!/bin/bash
# Runs every registered check (quick by default) on the current /repo tree and prints one status line each.
tier=${1:-quick}
cd "$(cd "$(dirname "$0")" && pwd)"
for p in $(python3 -c "import json;print(' '.join(c['property_id'] for c in json.load(open('MANIFEST.json'))['checks']))"); do
  s=$(date +%s); out=$(./check $p $tier 2>&1); rc=$?; e=$(( $(date +%s) - s ))
  echo "$p rc=$rc ${e}s $(echo "$out" | grep -E '^(OK|VIOLATION|INCONCLUSIVE)' | head -2 | tr '\n' ' ' | cut -c1-160)"
done
