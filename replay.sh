#!/bin/bash
# usage: replay.sh <property-id> <replay.json> : re-runs the recorded counterexample natively against /repo
set -u
export GOFLAGS=-mod=mod GOPROXY=off GOSUMDB=off GOTOOLCHAIN=local
HERE=$(cd "$(dirname "$0")" && pwd)
exec "$HERE/bin/gosym" -verif "$HERE" -repo /repo -property "$1" -replay-file "$(realpath "$2")"
