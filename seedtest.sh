#!/bin/bash
# usage: seedtest.sh <seed-dir-with-patch.diff> <property> [tier]  : apply a seeded change to /repo, run the check, undo.
d=$1; prop=$2; tier=${3:-quick}
cd /repo && git apply "$d/patch.diff" || { echo "PATCH DID NOT APPLY"; exit 3; }
go build ./... 2>&1 | head -3
cd /verif && timeout 3000 ./check $prop $tier 2>&1 | grep -E "VIOLATION|OK property|INCONCLUSIVE|label=|KNOWN" | cut -c1-260 | head -12
cd /repo && git checkout -- . && git status --short | head -3
