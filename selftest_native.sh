#!/bin/bash
# runs the interpreter self-test natively (same source, native zzverif)
export GOFLAGS=-mod=mod GOPROXY=off GOSUMDB=off GOTOOLCHAIN=local
tmp=$(mktemp -d /tmp/selfnat.XXXX)
cat > $tmp/t_test.go <<'T'
//go:build verif

package selftest

import (
	"testing"

	"github.com/boz/kcache/zzverif"
)

func TestSelfNative(t *testing.T) {
	VerifSelf_Sequential()
	VerifSelf_Concurrent()
	if len(zzverif.Failed) > 0 {
		t.Fatalf("native self-test failures: %v", zzverif.Failed)
	}
}
T
python3 - "$tmp" <<'P'
import json,sys,os
tmp=sys.argv[1]
repl={"/repo/zzverif/zzverif.go":"/verif/harness/zzverif/zzverif.go",
      "/repo/zzverif/selftest/zz_verif_selftest.go":"/verif/harness/zzverif__selftest/zz_verif_selftest.go",
      "/repo/zzverif/selftest/t_test.go":tmp+"/t_test.go"}
json.dump({"Replace":repl},open(tmp+"/ov.json","w"))
P
cd /repo && go test -c -tags=verif -vet=off -overlay $tmp/ov.json -o $tmp/self.test github.com/boz/kcache/zzverif/selftest && (cd $tmp && ./self.test -test.v 2>&1 | tail -4)
rm -rf $tmp
