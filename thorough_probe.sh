#!/bin/bash
# usage: thorough_probe.sh <props...> : run thorough tier with per-entry limit 900s, print status
cd "$(cd "$(dirname "$0")" && pwd)"
for p in "$@"; do
  s=$(date +%s); out=$(./bin/gosym -verif $(pwd) -property $p -tier thorough -timelimit 900 2>&1); rc=$?; e=$(( $(date +%s) - s ))
  echo "$p rc=$rc ${e}s"; echo "$out" | grep -E '^\[gosym\]|^(OK|VIOLATION|INCONCLUSIVE)' | cut -c1-150 | head -24
done
